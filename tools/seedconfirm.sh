#!/bin/bash
# usage: seedconfirm.sh <dir-with patch.diff demo_test.go notes.txt> <property> <seed-id> [extra-property ...]
# 1. confirms the seeded change in a scratch worktree of /repo: demo passes without it; with it the tree builds, the demo FAILS,
#    and the existing tests of the changed packages and of the repo packages importing them still pass
# 2. applies the patch to /repo, runs ./check <property> (and the extra properties), reverts /repo
# 3. stores patch.diff, the demonstration, meta.json and the logs under /verif/seeded/<seed-id>/
# The scratch worktree is removed at the end. /repo must be clean when this starts.
src=$1; prop=$2; id=$3; shift 3; extra="$@"
dst=/verif/seeded/$id; mkdir -p $dst
cp $src/patch.diff $dst/patch.diff; cp $src/demo_test.go $dst/demo_test.go.txt; cp $src/notes.txt $dst/notes.txt 2>/dev/null
[ -n "${SEED_SCRATCH:-}" ] || [ -z "$(git -C /repo status --porcelain)" ] || { echo "/repo is not clean"; exit 3; }
wt=/tmp/sc_$id; git -C /repo worktree remove --force $wt 2>/dev/null; rm -rf $wt
git -C /repo worktree add --detach $wt HEAD >/dev/null 2>&1 || { echo "cannot create worktree"; exit 3; }
pkg=$(grep -m1 -o 'place in: *[A-Za-z0-9_/.-]*' $src/demo_test.go | sed 's/place in: *//; s:/*$::')
[ -n "$pkg" ] || pkg=$(grep -m1 '^+++ b/' $src/patch.diff | sed 's:^+++ b/::; s:/[^/]*$::')
: > $dst/confirm.log
res() { echo "$1" | tee -a $dst/confirm.log; }
cd $wt
demo=$wt/$pkg/zz_seed_demo_test.go; cp $src/demo_test.go $demo
go test -mod=vendor -vet=off -count=1 -timeout 300s -run 'Seed|Demo' ./$pkg > $dst/demo_without_patch.log 2>&1; a=$?
res "demo without patch ($pkg): exit $a (expected 0)"
git apply $src/patch.diff 2>>$dst/confirm.log || { res "patch does not apply"; cd /; git -C /repo worktree remove --force $wt; exit 3; }
go build -mod=vendor ./... > $dst/build_with_patch.log 2>&1; b=$?
res "build with patch: exit $b (expected 0)"
go test -mod=vendor -vet=off -count=1 -timeout 300s -run 'Seed|Demo' ./$pkg > $dst/demo_with_patch.log 2>&1; c=$?
res "demo with patch: exit $c (expected non-zero)"
rm -f $demo
# packages changed by the patch + repo packages that import them (rpc excluded: its TestConsensus is the baseline's flaky test)
changed=$(grep '^+++ b/' $src/patch.diff | sed 's:^+++ b/::; s:/[^/]*$::' | sort -u)
pkgs=""
for p in common crypto p2p storage kernel config util/base58 kernel/internal/clock; do
  hit=0
  for ch in $changed; do
    [ "$p" = "$ch" ] && hit=1
    go list -mod=vendor -deps ./$p 2>/dev/null | grep -q "MixinNetwork/mixin/$ch\$" && hit=1
  done
  [ $hit = 1 ] && [ -d $p ] && pkgs="$pkgs ./$p"
done
go test -mod=vendor -vet=off -count=1 -timeout 25m $pkgs > $dst/pkgtests_with_patch.log 2>&1; d=$?
res "existing tests with patch ($pkgs): exit $d (expected 0)"
confirmed=false; [ $a -eq 0 ] && [ $b -eq 0 ] && [ $c -ne 0 ] && [ $d -eq 0 ] && confirmed=true
res "confirmed=$confirmed"
cd /; git -C /repo worktree remove --force $wt; git -C /repo worktree prune
# run the checks with the patch applied, then undo.
# default: git -C /repo apply; ./check; git -C /repo checkout -- .   (serial: /repo is shared)
# SEED_SCRATCH=1: the same check binary and contracts, run against a scratch COPY of /repo's working tree with the patch applied
# (govc check --repo <copy> --verif <scratch>), so that several seeds can be confirmed in parallel; the copy is removed afterwards.
detected=""; : > $dst/check_with_patch.log
if [ -n "${SEED_SCRATCH:-}" ]; then
  sc=$(mktemp -d /tmp/verif-seed.XXXXXX); mkdir -p $sc/repo $sc/verif/govc
  rsync -a --exclude .git /repo/ $sc/repo/; ln -s /verif/govc/trusted $sc/verif/govc/trusted; cp /verif/known_findings.json $sc/verif/
  if (cd $sc/repo && patch -p1 -s --no-backup-if-mismatch < $src/patch.diff); then
    for p in $prop $extra; do
      GOFLAGS=-mod=vendor GOPROXY=off GOSUMDB=off GOTOOLCHAIN=local /verif/bin/govc check $p --tier quick --repo $sc/repo --verif $sc/verif > /tmp/seedcheck_$id.log 2>&1; e=$?
      { echo "=== govc check $p (scratch copy of /repo + patch) exit $e"; grep -E 'VIOLATION|KNOWN-FINDING|machinery error|contract-stale|obligations,' /tmp/seedcheck_$id.log | sed "s#$sc/verif#/verif#g; s#$sc/repo#/repo#g" | cut -c1-400; } >> $dst/check_with_patch.log
      [ $e -eq 1 ] && detected="$detected $p"
      [ $e -ge 2 ] && detected="$detected $p(exit$e)"
    done
  fi
  mkdir -p $dst/replays; cp $sc/verif/replays/*.json $dst/replays/ 2>/dev/null; sed -i "s#/verif/replays/#/verif/seeded/$id/replays/#g" $dst/check_with_patch.log
  rm -rf $sc
elif git -C /repo apply $src/patch.diff; then
  for p in $prop $extra; do
    (cd /verif && ./check $p --tier quick) > /tmp/seedcheck_$id.log 2>&1; e=$?
    { echo "=== ./check $p exit $e"; grep -E 'VIOLATION|KNOWN-FINDING|machinery error|contract-stale|obligations,' /tmp/seedcheck_$id.log | cut -c1-400; } >> $dst/check_with_patch.log
    [ $e -eq 1 ] && detected="$detected $p"
    [ $e -ge 2 ] && detected="$detected $p(exit$e)"
  done
  git -C /repo checkout -q -- . ; git -C /repo clean -fdq -- . >/dev/null 2>&1
fi
rm -f /tmp/seedcheck_$id.log
res "detected by:${detected:- none}"
python3 - "$dst" "$prop" "$id" "$confirmed" "$detected" "$pkgs" <<'EOF'
import json, sys, re, os
dst, prop, sid, confirmed, detected, pkgs = sys.argv[1:7]
notes = open(os.path.join(dst, 'notes.txt')).read() if os.path.exists(os.path.join(dst, 'notes.txt')) else ''
viol = [l.strip() for l in open(os.path.join(dst, 'check_with_patch.log')) if 'VIOLATION' in l][:8]
meta = {
 "seed_id": sid, "breaks_property": prop,
 "files_changed": sorted(set(re.findall(r'^\+\+\+ b/(\S+)', open(os.path.join(dst, 'patch.diff')).read(), re.M))),
 "needs_to_manifest": notes.strip()[:1500],
 "confirmed": confirmed == 'true',
 "what_was_run": [
   "scratch worktree of /repo HEAD (removed afterwards)",
   "demo test without the change: must pass (demo_without_patch.log)",
   "go build ./... with the change (build_with_patch.log)",
   "demo test with the change: must fail (demo_with_patch.log)",
   "existing tests with the change: go test" + pkgs + " (pkgtests_with_patch.log)",
   "check of the property with the change applied (check_with_patch.log): either git -C /repo apply patch.diff; ./check <property> --tier quick; git -C /repo checkout -- . or, when several seeds were confirmed in parallel, the same govc binary and contracts against a scratch copy of /repo's working tree with the patch applied (the log says which)"],
 "detected_by_checks": detected.split(), "violation_lines": viol,
}
json.dump(meta, open(os.path.join(dst, 'meta.json'), 'w'), indent=1)
EOF
tail -3 $dst/confirm.log
