#!/bin/bash
# usage: mkscratch.sh <name>  -> /tmp/ag_<name>/{repo,govc,bin,out}; prints the govc command line to use
set -e
n=$1; d=/tmp/ag_$n
rm -rf $d; mkdir -p $d/bin $d/out
git -C /repo worktree prune
git -C /repo worktree add --detach $d/repo HEAD >/dev/null 2>&1
cp -r /verif/govc $d/govc
(cd $d/govc && GOFLAGS=-mod=vendor GOPROXY=off GOSUMDB=off GOTOOLCHAIN=local go1.26.8 build -o $d/bin/govc .)
cat > $d/run.sh <<EOS
#!/bin/bash
# rebuilds the scratch engine if its sources changed, then runs it on the scratch repo
cd $d/govc && GOFLAGS=-mod=vendor GOPROXY=off GOSUMDB=off GOTOOLCHAIN=local go1.26.8 build -o $d/bin/govc . || exit 2
exec $d/bin/govc -repo $d/repo -trusted $d/govc/trusted -out $d/out "\$@"
EOS
chmod +x $d/run.sh
echo $d
