#!/bin/bash
# usage: mkscratch.sh <name>  -> /tmp/ag_<name>/{repo,verif,bin,out,run.sh}
#   repo  = git clone of /repo (HEAD, branch "work")       -- contract files are committed there by the agent
#   verif = git clone of /verif (HEAD, branch "work")      -- engine at verif/govc, trusted specs at verif/govc/trusted
# Both are clones (not worktrees) so that nothing an agent commits lands in /repo's or /verif's object store; the
# results are merged with `git fetch /tmp/ag_<name>/verif work` / `git -C /repo fetch /tmp/ag_<name>/repo work`.
set -e
n=$1; d=/tmp/ag_$n
rm -rf $d; mkdir -p $d/bin $d/out
git clone -q ${SRC_REPO:-/repo} $d/repo && git -C $d/repo checkout -q -b work
git clone -q ${SRC_VERIF:-/verif} $d/verif && git -C $d/verif checkout -q -b work
git -C $d/repo config user.email agent@verif; git -C $d/repo config user.name "$n"
git -C $d/verif config user.email agent@verif; git -C $d/verif config user.name "$n"
ln -s $d/verif/govc $d/govc
(cd $d/verif/govc && GOFLAGS=-mod=vendor GOPROXY=off GOSUMDB=off GOTOOLCHAIN=local go1.26.8 build -o $d/bin/govc .)
cat > $d/run.sh <<EOS
#!/bin/bash
# rebuilds the scratch engine if its sources changed, then runs it on the scratch repo
cd $d/verif/govc && GOFLAGS=-mod=vendor GOPROXY=off GOSUMDB=off GOTOOLCHAIN=local go1.26.8 build -o $d/bin/govc . || exit 2
if [ "\$1" = "check" ]; then shift; exec $d/bin/govc check "\$@" --repo $d/repo --verif $d/verif; fi
exec $d/bin/govc -repo $d/repo -trusted $d/verif/govc/trusted -out $d/out "\$@"
EOS
chmod +x $d/run.sh
echo $d
