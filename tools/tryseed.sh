#!/bin/bash
# usage: tryseed.sh <worktree> <outdir-with-patch.diff/demo_test.go/notes.txt> <prop> <pkgdir> <seed-id>
# 1. confirms the seed in the scratch worktree (compiles, package tests pass with the patch, demo fails with / passes without)
# 2. applies the patch to /repo, runs ./check <prop>, reverts /repo
# 3. stores everything under /verif/seeded/<seed-id>/
wt=$1; out=$2; prop=$3; pkg=$4; id=$5
dst=/verif/seeded/$id; mkdir -p $dst
cp $out/patch.diff $dst/patch.diff; cp $out/demo_test.go $dst/demo_test.go.txt; cp $out/notes.txt $dst/notes.txt 2>/dev/null
demo=$wt/$pkg/zz_seed_demo_test.go
cd $wt && git checkout -q -- . 2>/dev/null
res() { echo "$1" | tee -a $dst/confirm.log; }
: > $dst/confirm.log
cp $out/demo_test.go $demo
go test -mod=vendor -vet=off -count=1 -run 'Seed|Demo' ./$pkg > $dst/demo_without_patch.log 2>&1; a=$?
res "demo without patch: exit $a (expected 0)"
git apply $out/patch.diff || { res "patch does not apply"; rm -f $demo; exit 3; }
go build -mod=vendor ./... > $dst/build_with_patch.log 2>&1; b=$?
res "build with patch: exit $b (expected 0)"
go test -mod=vendor -vet=off -count=1 -run 'Seed|Demo' ./$pkg > $dst/demo_with_patch.log 2>&1; c=$?
res "demo with patch: exit $c (expected non-zero)"
rm -f $demo
go test -mod=vendor -vet=off -count=1 ./$pkg > $dst/pkgtests_with_patch.log 2>&1; d=$?
res "package tests with patch: exit $d (expected 0)"
git checkout -q -- . ; 
confirmed=false; [ $a -eq 0 ] && [ $b -eq 0 ] && [ $c -ne 0 ] && [ $d -eq 0 ] && confirmed=true
res "confirmed=$confirmed"
cd /repo && git apply $out/patch.diff && (cd /verif && ./check $prop > $dst/check_with_patch.log 2>&1; echo "check exit $?" >> $dst/check_with_patch.log); git -C /repo checkout -q -- .
tail -4 $dst/check_with_patch.log | cut -c1-300
