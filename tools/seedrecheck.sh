#!/bin/bash
# usage: seedrecheck.sh <seed-id> [extra-property ...]
# Re-runs the check of an already confirmed seeded change against a scratch copy of /repo's CURRENT working tree with the patch applied
# (same govc binary and contracts as ./check), and updates check_with_patch.log and meta.json (detected_by_checks, violation_lines).
id=$1; shift; extra="$@"
dst=/verif/seeded/$id; [ -f $dst/meta.json ] || { echo "no such seed $id"; exit 2; }
prop=$(python3 -c "import json;print(json.load(open('$dst/meta.json'))['breaks_property'])")
sc=$(mktemp -d /tmp/verif-seed.XXXXXX); mkdir -p $sc/repo $sc/verif/govc
rsync -a --exclude .git /repo/ $sc/repo/; ln -s /verif/govc/trusted $sc/verif/govc/trusted; cp /verif/known_findings.json $sc/verif/
detected=""; : > $dst/check_with_patch.log
if (cd $sc/repo && patch -p1 -s --no-backup-if-mismatch < $dst/patch.diff); then
  for p in $prop $extra; do
    GOFLAGS=-mod=vendor GOPROXY=off GOSUMDB=off GOTOOLCHAIN=local /verif/bin/govc check $p --tier quick --repo $sc/repo --verif $sc/verif > $sc/log 2>&1; e=$?
    { echo "=== govc check $p (scratch copy of /repo + patch) exit $e"; grep -E 'VIOLATION|KNOWN-FINDING|machinery error|contract-stale|obligations,' $sc/log | sed "s#$sc/verif#/verif#g; s#$sc/repo#/repo#g" | cut -c1-400; } >> $dst/check_with_patch.log
    [ $e -eq 1 ] && detected="$detected $p"
    [ $e -ge 2 ] && detected="$detected $p(exit$e)"
  done
else
  echo "patch does not apply to the current tree" >> $dst/check_with_patch.log; detected="(patch-does-not-apply)"
fi
mkdir -p $dst/replays; cp $sc/verif/replays/*.json $dst/replays/ 2>/dev/null; sed -i "s#/verif/replays/#/verif/seeded/$id/replays/#g" $dst/check_with_patch.log
rm -rf $sc
python3 - "$dst" "$detected" <<'PY'
import json, sys, os
dst, detected = sys.argv[1], sys.argv[2]
m = json.load(open(os.path.join(dst, 'meta.json')))
m['detected_by_checks'] = detected.split()
m['violation_lines'] = [l.strip() for l in open(os.path.join(dst, 'check_with_patch.log')) if 'VIOLATION' in l][:8]
json.dump(m, open(os.path.join(dst, 'meta.json'), 'w'), indent=1)
PY
echo "$id: detected by:${detected:- none}"
