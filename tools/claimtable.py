#!/usr/bin/env python3
"""Prints a markdown table of the claimed checks from MANIFEST.json and the evidence files (for DESIGN.md §8.4)."""
import json, os
m = json.load(open('/verif/MANIFEST.json'))
props = {json.loads(l)['id']: json.loads(l)['title'] for l in open('/verif/properties.jsonl')}
print('| id | property | level | functions / lemmas under contract | obligations (discharged) | assumed contracts | wall s |')
print('|---|---|---|---|---|---|---|')
for c in m['checks']:
    pid = c['property_id']
    try:
        e = json.load(open(c['evidence_file']))
    except Exception:
        print(f"| {pid} | {props[pid]} | {c['level_claimed']['category']} | ? | ? | ? | ? |"); continue
    cov = e['coverage']
    n_assumed = sum(1 for a in e.get('assumptions', []) if a.startswith('assumed contract') or a.startswith('axiom'))
    print(f"| {pid} | {props[pid]} | {e['level']} | {len(cov.get('functions_under_contract', []))} | {cov.get('obligations')} ({cov.get('discharged')}) | {n_assumed} | {e['wall_s']:.0f} |")
print()
print('Not claimed:')
for n in m.get('not_applicable', []):
    print(f"* {n['property_id']} {props[n['property_id']]} — {n['reason']}")
