#!/usr/bin/env python3
"""Writes /verif/seeded/README.md: one row per seeded property-breaking change (from the meta.json files)."""
import json, glob, os
rows = []
for m in sorted(glob.glob('/verif/seeded/*/meta.json')):
    d = json.load(open(m))
    first = (d.get('needs_to_manifest') or '').strip().split('\n')[0][:160]
    obl = []
    for v in d.get('violation_lines', []):
        for tok in v.split():
            if tok.startswith('obligation='):
                obl.append(tok[len('obligation='):])
    det = [x for x in (d.get('detected_by_checks') or []) if not x.startswith('(') and '(exit' not in x]
    note = [x for x in (d.get('detected_by_checks') or []) if x.startswith('(') or '(exit' in x]
    rows.append((d['seed_id'], d['breaks_property'], ', '.join(d.get('files_changed', [])), 'yes' if d.get('confirmed') else 'NO',
                 (', '.join(det) if det else ('**missed**' + (' ' + ' '.join(note) if note else ''))), '; '.join(obl[:3]) + (' …' if len(obl) > 3 else ''), first))
out = ['# Seeded property-breaking changes', '',
       'Each directory holds `patch.diff`, the demonstration (`demo_test.go.txt`), `notes.txt` (what the change needs in order to manifest),',
       '`meta.json` and the logs of the confirmation run (`tools/seedconfirm.sh`). None of these changes is ever committed to /repo.', '',
       '| seed | property | files | confirmed (demo fails with / passes without, existing tests pass) | reported by check | failing obligations (first 3) | summary |',
       '|---|---|---|---|---|---|---|']
for r in rows:
    out.append('| ' + ' | '.join(x.replace('|', '\\|') for x in r) + ' |')
n = len(rows); caught = sum(1 for r in rows if not r[4].startswith('**missed**') and r[3] == 'yes'); conf = sum(1 for r in rows if r[3] == 'yes')
out += ['', f'{n} seeded changes, {conf} confirmed, {caught} of the confirmed ones reported by a check.']
open('/verif/seeded/README.md', 'w').write('\n'.join(out) + '\n')
print(out[-1])
