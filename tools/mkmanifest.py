#!/usr/bin/env python3
"""Regenerates /verif/MANIFEST.json from the table in tools/claims.json."""
import json, subprocess, os
V = '/verif'
props = [json.loads(l) for l in open(f'{V}/properties.jsonl')]
claims = json.load(open(f'{V}/tools/claims.json'))
import glob
for f in sorted(glob.glob(f'{V}/tools/claims.d/C*.json')):
    pid = os.path.basename(f)[:-5]
    claims['claimed'][pid] = json.load(open(f))
    claims['not_applicable'].pop(pid, None)
def _hook_commits():
    # a hook commit is any commit after the pinned snapshot that touches only guarded contract files (zz_*_verif.go, //go:build verif)
    out = []
    revs = subprocess.run(['git', '-C', '/repo', 'log', '--format=%H'], capture_output=True, text=True).stdout.split()
    for h in revs[:-1]:
        files = subprocess.run(['git', '-C', '/repo', 'show', '--format=', '--name-only', h], capture_output=True, text=True).stdout.split()
        if files and all(os.path.basename(f).startswith('zz_') and f.endswith('_verif.go') for f in files):
            out.append(h)
    return out
hook_commits = _hook_commits()
checks, na = [], []
for p in props:
    c = claims['claimed'].get(p['id'])
    if c:
        checks.append({
            "property_id": p['id'],
            "quick_cmd": f"./check {p['id']} --tier quick",
            "thorough_cmd": f"./check {p['id']} --tier thorough",
            "evidence_file": f"/verif/evidence/{p['id']}.json",
            "replay_cmd_template": f"./check {p['id']} --replay {{path}}",
            "engine": "govc",
            "level_claimed": {"category": c.get('category', "proof"), "text": c['text'], "design_ref": c.get('design_ref', f"DESIGN.md §4 {p['id']}")},
            "level_note": c['note'],
            "technique": c.get('technique', "contract-based deductive verification: weakest-precondition VCs over go/ssa of the real functions, contracts in //go:build verif comment files, discharged by z3/cvc5"),
        })
    else:
        na.append({"property_id": p['id'], "reason": claims['not_applicable'].get(p['id'], "check not built yet (engine under construction, see DESIGN.md)")})
m = {
    "version": 1,
    "setup_cmd": "cd /verif/govc && GOFLAGS=-mod=vendor GOPROXY=off GOSUMDB=off GOTOOLCHAIN=local go1.26.8 build -o /verif/bin/govc .",
    "hooks": {
        "guard": "verif",
        "enable": "go build -tags verif; the hooks are comment-only contract files <pkg>/zz_contracts_verif.go (//go:build verif) read by govc",
        "baseline_off_cmd": "cd /repo && go test -mod=vendor -vet=off -count=1 -timeout 25m ./...",
        "source_commits": hook_commits,
        "add_only": True,
    },
    "engines": [{"name": "govc", "path": "/verif/govc", "serves_properties": sorted(claims['claimed'].keys()),
                 "kind_free_text": "verification-condition generator for Go: go/packages + go/ssa of /repo's working tree -> SMT-LIB2 obligations per function under contract (requires/ensures/loop invariants/panics-when/modifies, lemmas), raced on z3 4.8.12, z3 5.1.0, cvc5 1.0.3"}],
    "checks": checks,
    "notes": claims.get('notes', ''),
    "not_applicable": na,
}
json.dump(m, open(f'{V}/MANIFEST.json', 'w'), indent=1)
print(len(checks), 'checks,', len(na), 'not applicable')
