#!/bin/bash
# Must-fail corpus: usage: selftest.sh [--json out.json] [Cxx ...]
# For every seeded change under /verif/seeded/<id>/ (meta.json: breaks_property, detected_by_checks) that belongs to one of the given
# properties (default: all) and is recorded as detected, copy /repo's CURRENT working tree to a scratch directory under /tmp, apply the
# seeded patch there, run the property's check against the scratch copy (evidence and replays go to a scratch verif dir, never to
# /verif/evidence) and require exit 1 with a VIOLATION line. The scratch copy is removed after each run. /repo is never modified.
# Output: one line per seed `SELFTEST <id> <prop> caught|MISSED|skipped(<why>)`, exit 0 iff nothing is MISSED.
json=""; if [ "$1" = "--json" ]; then json=$2; shift 2; fi
props="$@"
export GOFLAGS=-mod=vendor GOPROXY=off GOSUMDB=off GOTOOLCHAIN=local
missed=0; rows=""
for m in /verif/seeded/*/meta.json; do
  [ -f "$m" ] || continue
  d=$(dirname $m); id=$(basename $d)
  prop=$(python3 -c "import json,sys;print(json.load(open('$m'))['breaks_property'])")
  det=$(python3 -c "import json,sys;print(' '.join(json.load(open('$m')).get('detected_by_checks',[])))")
  if [ -n "$props" ]; then case " $props " in *" $prop "*) ;; *) continue;; esac; fi
  case " $det " in *" $prop "*) ;; *) echo "SELFTEST $id $prop skipped(recorded-as-not-detected)"; rows="$rows$id:$prop:skipped-not-detected,"; continue;; esac
  s=$(mktemp -d /tmp/verif-mut.XXXXXX)
  mkdir -p $s/repo $s/verif/govc
  rsync -a --exclude .git /repo/ $s/repo/
  ln -s /verif/govc/trusted $s/verif/govc/trusted; cp /verif/known_findings.json $s/verif/ 2>/dev/null
  if ! (cd $s/repo && patch -p1 -s --no-backup-if-mismatch < $d/patch.diff) >/dev/null 2>&1; then
    echo "SELFTEST $id $prop skipped(patch-does-not-apply-to-current-tree)"; rows="$rows$id:$prop:skipped-no-apply,"; rm -rf $s; continue
  fi
  /verif/bin/govc check $prop --tier quick --repo $s/repo --verif $s/verif > $s/log 2>&1; e=$?
  if [ $e -eq 1 ] && grep -q "^VIOLATION property=$prop" $s/log; then
    echo "SELFTEST $id $prop caught ($(grep -c '^VIOLATION' $s/log) obligations)"; rows="$rows$id:$prop:caught,"
  else
    echo "SELFTEST $id $prop MISSED (exit $e)"; rows="$rows$id:$prop:MISSED,"; missed=1
  fi
  rm -rf $s
done
if [ -n "$json" ]; then python3 - "$rows" "$json" <<'EOF'
import sys, json
rows=[r.split(':') for r in sys.argv[1].split(',') if r]
json.dump({"seeds":[{"id":a,"property":b,"outcome":c} for a,b,c in rows]}, open(sys.argv[2],'w'), indent=1)
EOF
fi
exit $missed
