#!/bin/bash
# usage: mkseedscratch.sh <name> -> /tmp/seed_<name>/repo : a clone of /repo WITHOUT the verification contract files
# (seeding agents must see nothing of the verification machinery), and /tmp/seed_<name>/out for their deliverables.
set -e
n=$1; d=/tmp/seed_$n
rm -rf $d; mkdir -p $d/out
git clone -q /repo $d/repo
cd $d/repo && git config user.email seed@x && git config user.name seed
git rm -q -f */zz_contracts*_verif.go && git commit -q -m "scratch base" 
echo $d
