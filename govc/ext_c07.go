package main

import (
	"fmt"
	"go/token"
	"go/types"
	"strings"

	"golang.org/x/tools/go/ssa"
)

// Additions made for C07 (snapshot payload encoder, functional layer).
//
// 1. `extend func (recv) Name` — additional clauses for a function whose contract lives in ANOTHER file (a function still
//    has exactly one contract: the clauses are merged into it after all files have been read, in any file order).
//    Allowed clauses: `property`, `ensures`, `hint`, `loop N invariant`; everything else is an error (an extension can only ADD
//    proof obligations, it can never weaken the base contract: no requires, no modifies, no maypanic, no assumes).
//    An `ensures` clause without its own `@Cxx` tag gets the extension's `property` list as its clause-level tag, so that the
//    obligation counts for the extending property only and the function is picked up by `check Cxx`.
//
// 2. slices.SortFunc(x, cmp) on a slice of byte arrays (`[]crypto.Hash`): T-SORT model, see sortFuncModel.
//
// 3. builtin `lit(b0, b1, ...)`: the `seq` code of the byte string b0 b1 ... (the content of a composite literal
//    `[]byte{b0, b1, ...}`): bseq(store(...store(zero, 0, b0)..., k-1, b(k-1)), 0, k). Purely definitional: a freshly
//    allocated block is the constant-zero array with the literal's elements stored into it, so seq of the literal's slice is
//    this very term.

type extendRec struct {
	fs  *FuncSpec
	src string
}

var contractExtensions = map[*Contracts][]extendRec{}

func init() {
	clauseKeywords = append(clauseKeywords, "extend")
}

// beginExtend parses the header of an `extend func ...` block and returns the detached spec the following clauses go to.
func (cs *Contracts) beginExtend(rest, pkg, src string, trusted bool) (*FuncSpec, error) {
	if trusted {
		return nil, fmt.Errorf("extend is not allowed in trusted spec files")
	}
	m := reFuncHdr.FindStringSubmatch(strings.TrimSpace(rest))
	if m == nil {
		return nil, fmt.Errorf("bad func header %q", rest)
	}
	fs := &FuncSpec{Pkg: pkg, LoopInv: map[int][]Clause{}, Src: src, Unroll: map[int]int{}}
	name := m[5]
	if m[1] != "" {
		recvT := m[4]
		rp := pkg
		if i := strings.LastIndex(recvT, "."); i >= 0 {
			rp, recvT = recvT[:i], recvT[i+1:]
		}
		if m[3] == "*" {
			fs.Key = fmt.Sprintf("(*%s.%s).%s", rp, recvT, name)
		} else {
			fs.Key = fmt.Sprintf("(%s.%s).%s", rp, recvT, name)
		}
	} else {
		fs.Key = pkg + "." + name
	}
	contractExtensions[cs] = append(contractExtensions[cs], extendRec{fs, src})
	return fs, nil
}

// mergeExtensions folds every `extend func` block into the contract it extends (called once, after all files are loaded).
func (cs *Contracts) mergeExtensions() error {
	for _, x := range contractExtensions[cs] {
		e := x.fs
		base := cs.Funcs[e.Key]
		if base == nil {
			return fmt.Errorf("%s: extend func %s: no contract to extend", x.src, e.Key)
		}
		if base.Assume || base.Opaque {
			return fmt.Errorf("%s: extend func %s: the base contract (%s) is assumed; only verified contracts can be extended", x.src, e.Key, base.Src)
		}
		if len(e.Requires) > 0 || e.HasMod || e.Pure || e.MayPanic || len(e.PanicsWhen) > 0 || len(e.AssumedEns) > 0 || len(e.TrustPre) > 0 ||
			e.NoFrame || e.Opaque || e.Inline || e.NoInline || e.Fresh || len(e.Ghosts) > 0 || len(e.GhostUpds) > 0 || len(e.Uses) > 0 ||
			len(e.Unreachable) > 0 || e.Lockset != "" || len(funcUses[e]) > 0 || len(e.Modes) > 0 {
			return fmt.Errorf("%s: extend func %s: only property / ensures / hint / loop invariant clauses are allowed in an extension", x.src, e.Key)
		}
		have := map[string]bool{}
		for _, c := range base.Ensures {
			have[c.Label] = true
		}
		for _, c := range e.Ensures {
			if c.Label == "" {
				return fmt.Errorf("%s: extend func %s: every added ensures clause needs a [label]", c.Src, e.Key)
			}
			if have[c.Label] {
				return fmt.Errorf("%s: extend func %s: label [%s] already used by the base contract (%s)", c.Src, e.Key, c.Label, base.Src)
			}
			have[c.Label] = true
			if len(c.Props) == 0 {
				c.Props = append([]string{}, e.Props...)
			}
			base.Ensures = append(base.Ensures, c)
		}
		for _, h := range e.Hints {
			if len(h.Clause.Props) == 0 {
				h.Clause.Props = append([]string{}, e.Props...)
			}
			base.Hints = append(base.Hints, h)
		}
		for n, cls := range e.LoopInv {
			for _, c := range cls {
				if len(c.Props) == 0 {
					c.Props = append([]string{}, e.Props...)
				}
				base.LoopInv[n] = append(base.LoopInv[n], c)
			}
		}
	}
	delete(contractExtensions, cs)
	return nil
}

// sortFuncModel: assumed semantics of slices.SortFunc(x, cmp) for x a slice of arrays of a leaf type (e.g. []crypto.Hash) and
// cmp a function literal with a contract `ensures result < 0 <==> E(a, b)` (T-SORT, the slices.SortFunc analogue of sortSliceModel):
//
//	(perm)    the window x[0:len] is permuted: new[i] == old[perm(i)] with perm a bijection of [0, len) (inverse pinv); every other
//	          cell of the heap is unchanged
//	(sorted)  forall i < j < len :: !(cmp(new[j], new[i]) < 0)
//	(stable-on-sorted)  (forall 1 <= i < len :: cmp(old[i-1], old[i]) < 0)  ==>  perm == identity
//
// The third fact is a mathematical CONSEQUENCE of the first two when `cmp(.,.) < 0` is transitive (slices.SortFunc's documented
// requirement "cmp must be a strict weak ordering"; true for bytes.Compare): a strictly increasing input has cmp(old[a], old[b]) < 0
// for all a < b, so a permutation with an inversion (i < j, perm(i) > perm(j)) would give cmp(new[j], new[i]) < 0, contradicting
// (sorted); a bijection of [0, len) without inversions is the identity. The induction behind it is out of the solvers' reach, so it is
// stated as part of the model.
func (fr *Frame) sortFuncModel(c *ssa.CallCommon, st *State, g string, pos token.Pos) bool {
	fc := fr.fc
	if len(c.Args) != 2 {
		return false
	}
	sl, ok := types.Unalias(c.Args[0].Type()).Underlying().(*types.Slice)
	if !ok {
		return false
	}
	at, ok := isArrayT(sl.Elem())
	if !ok || !isLeaf(at.Elem()) {
		return false
	}
	var fn *ssa.Function
	var bindings []SV
	switch v := c.Args[1].(type) {
	case *ssa.Function:
		fn = v
	case *ssa.MakeClosure:
		fn, _ = v.Fn.(*ssa.Function)
		for _, b := range v.Bindings {
			bindings = append(bindings, fr.val(b))
		}
	default:
		if rec := fc.eng.closures[fr.val(c.Args[1]).t]; rec != nil {
			fn, bindings = rec.fn, rec.bindings
		}
	}
	if fn == nil || len(fn.Params) != 2 {
		return false
	}
	spec := fc.eng.specFor(fn)
	if spec == nil {
		return false
	}
	// the comparator's definitional clause: result < 0 <==> E
	var lessE Expr
	for _, cl := range spec.Ensures {
		b, ok := cl.E.(*EBinary)
		if !ok || b.Op != "<==>" {
			continue
		}
		lt, ok := b.X.(*EBinary)
		if !ok || lt.Op != "<" {
			continue
		}
		id, ok1 := lt.X.(*EIdent)
		z, ok2 := lt.Y.(*ENum)
		if ok1 && ok2 && id.Name == "result" && z.Val == "0" {
			lessE = b.Y
			break
		}
	}
	if lessE == nil {
		fc.warn("slices.SortFunc comparator %s has no clause `ensures result < 0 <==> E`: not modelled", funcKey(fn))
		return false
	}
	s := fr.val(c.Args[0])
	fc.assumes["assumed contract: slices.SortFunc permutes the slice, orders it by cmp and leaves a strictly increasing slice unchanged (T-SORT; comparator "+funcKey(fn)+")"] = true
	fc.calleesUsed[funcKey(fn)] = true
	k, srt := fc.bKey(at.Elem())
	prev := fc.comp(st, k, srt)
	prevN := fc.define(fr.prefix+"sfold", srt, prev)
	h := fc.fresh("H_"+mangle(k), srt)
	fc.nfresh++
	perm, pinv := fmt.Sprintf("sfperm!%d", fc.nfresh), fmt.Sprintf("sfpinv!%d", fc.nfresh)
	fc.emit(fmt.Sprintf("(declare-fun %s (Int) Int)", perm))
	fc.emit(fmt.Sprintf("(declare-fun %s (Int) Int)", pinv))
	arr, off, n := sarr(s.t), soff(s.t), slen(s.t)
	inr := func(v string) string { return fmt.Sprintf("(and (<= 0 %s) (< %s %s))", v, v, n) }
	cell := func(heap, j string) string { return app("select", heap, mkElem(arr, idx(off, j))) }
	// (perm) content of the new heap, cell by cell
	fc.emit(fmt.Sprintf("(assert (forall ((p Ptr)) (! (= (select %[1]s p) (ite (and ((_ is Elem) p) (= (epar p) %[2]s) (<= %[3]s (eix p)) (< (eix p) (+ %[3]s %[4]s))) (select %[5]s (Elem %[2]s (+ %[3]s (%[6]s (- (eix p) %[3]s))))) (select %[5]s p))) :pattern ((select %[1]s p)))))",
		h, arr, off, n, prevN, perm))
	// the same, by relative index (the form in which element reads x[i] appear). Triggers are chosen so that no instantiation
	// chain arises: reads of NEW elements introduce perm terms, pinv terms are only ever introduced by the user's clauses.
	fc.emit(fmt.Sprintf("(assert (forall ((a Int)) (! (=> %s (and %s (= %s %s))) :pattern (%s))))",
		inr("a"), inr("("+perm+" a)"), cell(h, "a"), cell(prevN, "("+perm+" a)"), cell(h, "a")))
	fc.emit(fmt.Sprintf("(assert (forall ((b Int)) (! (=> %s (and %s (= (%s (%s b)) b) (= %s %s))) :pattern ((%s b)))))",
		inr("b"), inr("("+pinv+" b)"), perm, pinv, cell(h, "("+pinv+" b)"), cell(prevN, "b"), pinv))
	fc.emit(fmt.Sprintf("(assert (forall ((a Int)) (! (=> %s (= (%s (%s a)) a)) :pattern ((%s (%s a))))))", inr("a"), pinv, perm, pinv, perm))
	fc.noteWrite(k)
	st.heap[k] = h
	// (sorted) and (stable-on-sorted) through the comparator's definitional clause, evaluated on element VALUES
	sub := fc.newFrame(fn, "", fr.depth+1, false)
	sub.bindings = bindings
	less := func(heap *State, hname, i, j string) (string, error) {
		sub.params = []SV{{t: cell(hname, i), typ: sl.Elem()}, {t: cell(hname, j), typ: sl.Elem()}}
		return sub.specEnv(heap, heap).evalBool(lessE)
	}
	stOld := &State{heap: map[string]string{}}
	for kk, vv := range st.heap {
		stOld.heap[kk] = vv
	}
	stOld.heap[k] = prevN
	sorted, err1 := less(st, h, "j", "i")
	incr, err2 := less(stOld, prevN, "(- i 1)", "i")
	if err1 != nil || err2 != nil {
		fc.warn("slices.SortFunc comparator %s: clause not evaluable on element values: order unknown", funcKey(fn))
		return true
	}
	// the comparison term itself is the trigger (an unrestricted pair pattern over the elements instantiates quadratically)
	pat := ""
	if strings.HasPrefix(sorted, "(") && !isLogicalHead(sorted) {
		pat = " :pattern (" + sorted + ")"
	}
	fc.emit(fmt.Sprintf("(assert (forall ((i Int) (j Int)) (! (=> (and (<= 0 i) (< i j) (< j %s)) (not %s))%s)))", n, sorted, pat))
	fc.emit(fmt.Sprintf("(assert (=> (forall ((i Int)) (=> (and (<= 1 i) (< i %s)) %s)) (forall ((a Int)) (! (=> %s (= (%s a) a)) :pattern ((%s a))))))", n, incr, inr("a"), perm, perm))
	return true
}

// litBuiltin: lit(b0, b1, ...) — the seq code of the byte string made of the given bytes (see the header comment).
func (e *SpecEnv) litBuiltin(x *ECall) SV {
	fc := e.fc
	if len(x.Args) == 0 {
		e.fail("lit(b0, b1, ...)")
	}
	blk := "((as const (Array Int Int)) 0)"
	for i, a := range x.Args {
		v := e.eval(a)
		if fc.tc.sortOfSV(v) != "Int" {
			e.fail("lit: argument %d is not an integer", i)
		}
		blk = app("store", blk, num(int64(i)), v.t)
	}
	fc.eng.declareUF(fc, "bseq", []string{"(Array Int Int)", "Int", "Int"}, "Int")
	return SV{t: app("bseq", blk, "0", num(int64(len(x.Args)))), typ: mathInt}
}

// isLogicalHead: the term is an application of a logical / arithmetic / array operator (not usable as a trigger on its own).
func isLogicalHead(t string) bool {
	for _, h := range []string{"(and ", "(or ", "(not ", "(= ", "(=> ", "(ite ", "(< ", "(<= ", "(> ", "(>= ", "(+ ", "(- ", "(* ", "(select ", "(store ", "(let ", "(forall ", "(exists ", "(distinct "} {
		if strings.HasPrefix(t, h) {
			return true
		}
	}
	return false
}

// recElemFrameAxioms: one more frame axiom for a recursive spec function (complements recFrameAxioms, ext_recframe.go).
//
// If every occurrence of a block component H in the defining equation of f is either
//
//	(select H (Elem (sarr <slice parameter raK>) <index term>))     -- a read of an element of the slice parameter raK, or
//	the heap argument of a self call that passes raK on unchanged (and n-1 last),
//
// then a store at any pointer that is NOT an element cell of raK's backing array does not change the value:
//
//	!(p is Elem && epar(p) == sarr(raK))  ==>  f(.., (store H p v), .., raK, .., n) == f(.., H, .., raK, .., n)
//
// Proof by induction on n, all other arguments universally quantified: each select of the body reads a cell Elem(sarr(raK), _) != p,
// hence the same value in both heaps; the self calls are at n-1 with the same raK (induction hypothesis); for n <= 0 there is no
// self call (recWellFounded). This is what carries `SnapTxs(pre, txs, n)` over the appends to the encoder's buffer: they store at
// the buffer's block, never at an element of txs. Single-term trigger (the application over the stored heap): no instantiation
// chains, unlike the general congruence theorem (`recframe`), which matches every PAIR of applications.
func recElemFrameAxioms(name string, comps, hnames []string, compSorts map[string]string, hdecls, decls, argNames []string, body string) string {
	// with `reclimit` the recursive calls of the defining equation go to the twin name_lim (== name on every application)
	body = strings.ReplaceAll(body, "("+name+"_lim ", "("+name+" ")
	self := "(" + name + " " + strings.Join(hnames, " ")
	var out []string
	for i, k := range comps {
		srt := compSorts[k]
		if !strings.HasPrefix(srt, "(Array Ptr ") {
			continue
		}
		valSort := strings.TrimSuffix(strings.TrimPrefix(srt, "(Array Ptr "), ")")
		hn := hnames[i]
		// self calls must pass every parameter except the last unchanged (then raK is unchanged in particular)
		ok, pos := true, 0
		for ok {
			j := strings.Index(body[pos:], self)
			if j < 0 {
				break
			}
			j += pos
			end := matchParenAt(body, j)
			if end < 0 {
				ok = false
				break
			}
			args := splitTop(body[j : end+1])
			// args[0] = name, then the heap names, then the parameters
			if len(args) != 1+len(hnames)+len(argNames) {
				ok = false
				break
			}
			for q := 0; q+1 < len(argNames); q++ {
				if args[1+len(hnames)+q] != argNames[q] {
					ok = false
				}
			}
			pos = end
		}
		if !ok {
			continue
		}
		rest := strings.ReplaceAll(body, self, "(SELF")
		par := ""
		pos = 0
		for ok {
			j := strings.Index(rest[pos:], hn)
			if j < 0 {
				break
			}
			j += pos
			end := j + len(hn)
			pos = end
			if end < len(rest) && rest[end] != ' ' && rest[end] != ')' {
				continue // a longer identifier
			}
			if j > 0 && rest[j-1] != ' ' && rest[j-1] != '(' {
				continue
			}
			const pre = " (Elem (sarr "
			if !strings.HasSuffix(rest[:j], "(select ") || !strings.HasPrefix(rest[end:], pre) {
				ok = false
				break
			}
			q := end + len(pre)
			e := strings.IndexAny(rest[q:], " )")
			if e < 0 || rest[q+e] != ')' {
				ok = false
				break
			}
			p := rest[q : q+e]
			isArg := false
			for _, a := range argNames[:len(argNames)-1] {
				if a == p {
					isArg = true
				}
			}
			if !isArg || (par != "" && par != p) {
				ok = false
				break
			}
			par = p
		}
		if !ok || par == "" {
			continue
		}
		stored := make([]string, len(hnames))
		copy(stored, hnames)
		stored[i] = "(store " + hn + " rfp rfv)"
		lhs := app(name, append(stored, argNames...)...)
		rhs := app(name, append(append([]string{}, hnames...), argNames...)...)
		all := append(append([]string{}, hdecls...), decls...)
		all = append(all, "(rfp Ptr)", "(rfv "+valSort+")")
		out = append(out, fmt.Sprintf("(assert (forall (%s) (! (=> (not (and ((_ is Elem) rfp) (= (epar rfp) (sarr %s)))) (= %s %s)) :pattern (%s))))",
			strings.Join(all, " "), par, lhs, rhs, lhs))
	}
	return strings.Join(out, "\n")
}

// matchParenAt: index of the parenthesis closing the one at s[i] (-1 if unbalanced).
func matchParenAt(s string, i int) int {
	d := 0
	for j := i; j < len(s); j++ {
		switch s[j] {
		case '(':
			d++
		case ')':
			d--
			if d == 0 {
				return j
			}
		}
	}
	return -1
}

// trustsPreLabel: `trustpre callee[label]` in the contract of the function under verification trusts ONE labelled precondition of
// that callee (the other preconditions of the callee stay proof obligations at the call sites). Added for C07: the verified
// contract of (*Snapshot).PayloadHash needs `requires [canonical]` for its `modifies nothing`; the properties that call it
// (C19, C35, ...) keep proving `s != nil && s.Version == 2` and only take the canonical order of the transactions on trust.
func (fr *Frame) trustsPreLabel(key, label string) bool {
	if label == "" {
		return false
	}
	root := fr
	for root.callerFrame != nil {
		root = root.callerFrame
	}
	if root.spec == nil {
		return false
	}
	for _, n := range root.spec.TrustPre {
		i := strings.Index(n, "[")
		if i < 0 || !strings.HasSuffix(n, "]") || n[i+1:len(n)-1] != label {
			continue
		}
		n = n[:i]
		if key == n || strings.HasSuffix(key, "."+n) || strings.HasSuffix(key, ")."+n) {
			return true
		}
	}
	return false
}
