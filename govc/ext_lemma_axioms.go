package main

// Axioms in lemmas (added for C32).
//
// A `lemma` is a closed query over its parameters. The PROPERTY-SCOPED axioms (`axiom @Cnn E`, see axiomInScope below) of the
// lemma's own package and of the packages it imports directly -- the definitional axioms of the uninterpreted spec functions
// the lemma talks about, written in a contract file of that package or in a trusted .spec file under `package <pkg>` -- are
// assumed in a lemma tagged with that property, exactly as they are in the functions of that property, and listed among the
// lemma's assumptions. Unscoped axioms never enter lemmas (as before), so lemmas of other properties are unchanged.
// noLemmaAxioms: lemma contexts whose `requires` called the spec builtin noaxioms().
var noLemmaAxioms = map[*FnCtx]bool{}

func (eng *Engine) assumeLemmaAxioms(fc *FnCtx, st *State, l *Lemma) error {
	if noLemmaAxioms[fc] { // the lemma said `requires noaxioms()`
		return nil
	}
	lp := eng.pkgOfSpec(&FuncSpec{Pkg: l.Pkg})
	for _, ax := range eng.contracts.Axioms {
		if ax.Pkg == "" || len(ax.Props) == 0 || !axiomInScope(ax, l.Props) {
			continue // only property-scoped axioms (`axiom @Cnn ...`) enter lemmas: lemmas of other properties are unchanged
		}
		// the lemma's own package, or a package it imports directly (the rule axiomRelevant applies to functions)
		rel := ax.Pkg == l.Pkg
		if !rel && lp != nil {
			for _, imp := range lp.Imports() {
				if shortType(imp.Path()) == ax.Pkg {
					rel = true
				}
			}
		}
		if !rel {
			continue
		}
		aenv := &SpecEnv{fc: fc, vars: map[string]SV{}, cur: st, old: st, pkg: eng.pkgOfSpec(&FuncSpec{Pkg: ax.Pkg})}
		t, e := aenv.evalBool(ax.E)
		if e != nil {
			if ax.Pkg == l.Pkg && len(ax.Props) > 0 {
				return e
			}
			continue // an axiom that does not evaluate in a lemma context (e.g. about a package global) is dropped: sound
		}
		fc.assumes["axiom: "+ax.Text+" ("+ax.Src+")"] = true
		fc.assume("true", t)
	}
	return nil
}

// Property-scoped axioms: `axiom @C32 E` (the same `@Cnn[,Cmm]` prefix a clause may carry) is assumed only in functions and
// lemmas tagged with one of these properties. Dropping an assumption elsewhere is always sound; it keeps the T-GROUP axioms
// out of the VCs and the assumption lists of the properties that merely call a key-derivation function.
func axiomInScope(ax Clause, props []string) bool {
	if len(ax.Props) == 0 {
		return true
	}
	for _, p := range ax.Props {
		for _, q := range props {
			if p == q {
				return true
			}
		}
	}
	return false
}
