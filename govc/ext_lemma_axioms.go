package main

// Axioms in lemmas (added for C32).
//
// A `lemma` is a closed query over its parameters. The axioms of the lemma's own package (the definitional axioms of the
// uninterpreted spec functions the lemma talks about: written in a contract file of that package, or in a trusted .spec
// file under `package <that package>`) are now assumed in it, exactly as they are in every function of that package, and
// listed among the lemma's assumptions. Axioms of other packages are not added (they cannot be about this package's
// vocabulary, and may mention globals that do not resolve here).
func (eng *Engine) assumeLemmaAxioms(fc *FnCtx, st *State, l *Lemma) error {
	for _, ax := range eng.contracts.Axioms {
		if ax.Pkg == "" || ax.Pkg != l.Pkg || !axiomInScope(ax, l.Props) {
			continue
		}
		aenv := &SpecEnv{fc: fc, vars: map[string]SV{}, cur: st, old: st, pkg: eng.pkgOfSpec(&FuncSpec{Pkg: ax.Pkg})}
		t, e := aenv.evalBool(ax.E)
		if e != nil {
			return e
		}
		fc.assumes["axiom: "+ax.Text+" ("+ax.Src+")"] = true
		fc.assume("true", t)
	}
	return nil
}

// Property-scoped axioms: `axiom @C32 E` (the same `@Cnn[,Cmm]` prefix a clause may carry) is assumed only in functions and
// lemmas tagged with one of these properties. Dropping an assumption elsewhere is always sound; it keeps the T-GROUP axioms
// out of the VCs and the assumption lists of the properties that merely call a key-derivation function.
func axiomInScope(ax Clause, props []string) bool {
	if len(ax.Props) == 0 {
		return true
	}
	for _, p := range ax.Props {
		for _, q := range props {
			if p == q {
				return true
			}
		}
	}
	return false
}
