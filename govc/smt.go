package main

import (
	"fmt"
	"math/big"
	"strings"
)

// SMT terms are plain s-expression strings. Helpers keep construction readable.

func app(f string, args ...string) string {
	if len(args) == 0 {
		return f
	}
	return "(" + f + " " + strings.Join(args, " ") + ")"
}

func and(xs ...string) string {
	var ys []string
	for _, x := range xs {
		if x == "true" || x == "" {
			continue
		}
		if x == "false" {
			return "false"
		}
		ys = append(ys, x)
	}
	switch len(ys) {
	case 0:
		return "true"
	case 1:
		return ys[0]
	}
	return app("and", ys...)
}

func or(xs ...string) string {
	var ys []string
	for _, x := range xs {
		if x == "false" || x == "" {
			continue
		}
		if x == "true" {
			return "true"
		}
		ys = append(ys, x)
	}
	switch len(ys) {
	case 0:
		return "false"
	case 1:
		return ys[0]
	}
	return app("or", ys...)
}

func not(x string) string {
	switch x {
	case "true":
		return "false"
	case "false":
		return "true"
	}
	if strings.HasPrefix(x, "(not ") && balanced(x[5:len(x)-1]) {
		return x[5 : len(x)-1]
	}
	return app("not", x)
}

func implies(a, b string) string {
	if a == "true" {
		return b
	}
	if a == "false" || b == "true" {
		return "true"
	}
	return app("=>", a, b)
}

func ite(c, a, b string) string {
	if c == "true" {
		return a
	}
	if c == "false" {
		return b
	}
	if a == b {
		return a
	}
	return app("ite", c, a, b)
}

func eq(a, b string) string {
	if a == b {
		return "true"
	}
	return app("=", a, b)
}

func num(n int64) string {
	if n < 0 {
		return fmt.Sprintf("(- %d)", -n)
	}
	return fmt.Sprintf("%d", n)
}

func bignum(n *big.Int) string {
	if n.Sign() < 0 {
		return "(- " + new(big.Int).Neg(n).String() + ")"
	}
	return n.String()
}

func pow2(k int) *big.Int { return new(big.Int).Lsh(big.NewInt(1), uint(k)) }

// balanced reports whether s is a single balanced s-expression or atom.
func balanced(s string) bool {
	depth := 0
	for i, c := range s {
		switch c {
		case '(':
			depth++
		case ')':
			depth--
			if depth < 0 {
				return false
			}
			if depth == 0 && i != len(s)-1 {
				return false
			}
		case ' ':
			if depth == 0 {
				return false
			}
		}
	}
	return depth == 0
}

// splitTop splits "(f a b c)" into ["f","a","b","c"]; atoms return [s].
func splitTop(s string) []string {
	if !strings.HasPrefix(s, "(") {
		return []string{s}
	}
	s = s[1 : len(s)-1]
	var out []string
	depth, start := 0, 0
	for i := 0; i < len(s); i++ {
		switch s[i] {
		case '(':
			depth++
		case ')':
			depth--
		case ' ':
			if depth == 0 {
				if i > start {
					out = append(out, s[start:i])
				}
				start = i + 1
			}
		}
	}
	if start < len(s) {
		out = append(out, s[start:])
	}
	return out
}

const nilPtr = "(Base 0)"

func mkFld(p string, k int) string  { return app("Fld", p, num(int64(k))) }
func mkElem(a string, i string) string { return app("Elem", a, i) }

func isElemTerm(s string) (par, idx string, ok bool) {
	if !strings.HasPrefix(s, "(Elem ") {
		return
	}
	p := splitTop(s)
	if len(p) != 3 {
		return
	}
	return p[1], p[2], true
}

func isConsTerm(s string) bool {
	return strings.HasPrefix(s, "(Elem ") || strings.HasPrefix(s, "(Fld ") || strings.HasPrefix(s, "(Base ")
}

func mkSlice(arr, off, ln, cp string) string { return app("mk-slice", arr, off, ln, cp) }

const nilSlice = "(mk-slice (Base 0) 0 0 0)"

func sarr(s string) string {
	if p := splitTop(s); len(p) == 5 && p[0] == "mk-slice" {
		return p[1]
	}
	return app("sarr", s)
}
func soff(s string) string {
	if p := splitTop(s); len(p) == 5 && p[0] == "mk-slice" {
		return p[2]
	}
	return app("soff", s)
}
func slen(s string) string {
	if p := splitTop(s); len(p) == 5 && p[0] == "mk-slice" {
		return p[3]
	}
	return app("slen", s)
}
func scap(s string) string {
	if p := splitTop(s); len(p) == 5 && p[0] == "mk-slice" {
		return p[4]
	}
	return app("scap", s)
}

func idx(off, i string) string {
	if off == "0" {
		return i
	}
	return app("idx", off, i)
}

func plus(a, b string) string {
	if a == "0" {
		return b
	}
	if b == "0" {
		return a
	}
	return app("+", a, b)
}
func minus(a, b string) string {
	if b == "0" {
		return a
	}
	return app("-", a, b)
}

// preamble common to every query.
const smtPrelude = `(set-option :produce-models true)
(set-logic ALL)
(declare-datatypes ((Ptr 0)) (((Base (pid Int)) (Fld (fpar Ptr) (fk Int)) (Elem (epar Ptr) (eix Int)))))
(declare-datatypes ((Slice 0)) (((mk-slice (sarr Ptr) (soff Int) (slen Int) (scap Int)))))
(declare-datatypes ((Iface 0)) (((mk-iface (itag Int) (iptr Ptr)))))
(declare-sort Str 0)
(declare-fun strlen (Str) Int)
(declare-fun strat (Str Int) Int)
(declare-fun strcat (Str Str) Str)
(declare-fun strsub (Str Int Int) Str)
(declare-fun str_of_bytes ((Array Int Int) Int Int) Str)
(declare-fun root (Ptr) Int)
(declare-fun mtype (Ptr) Int)
(assert (forall ((n Int)) (! (= (root (Base n)) n) :pattern ((Base n)))))
(assert (forall ((p Ptr) (k Int)) (! (= (root (Fld p k)) (root p)) :pattern ((Fld p k)))))
(assert (forall ((p Ptr) (i Int)) (! (= (root (Elem p i)) (root p)) :pattern ((Elem p i)))))
(declare-fun idx (Int Int) Int)
(assert (forall ((o Int) (i Int)) (! (= (idx o i) (+ o i)) :pattern ((idx o i)))))
(define-fun addw ((a Int) (b Int) (lo Int) (hi Int)) Int (let ((s (+ a b))) (ite (>= s hi) (- s (- hi lo)) (ite (< s lo) (+ s (- hi lo)) s))))
(define-fun subw ((a Int) (b Int) (lo Int) (hi Int)) Int (let ((s (- a b))) (ite (>= s hi) (- s (- hi lo)) (ite (< s lo) (+ s (- hi lo)) s))))
(define-fun wrapw ((x Int) (lo Int) (hi Int)) Int (+ lo (mod (- x lo) (- hi lo))))
(define-fun tdiv ((a Int) (b Int)) Int (ite (>= a 0) (ite (> b 0) (div a b) (- (div a (- b)))) (ite (> b 0) (- (div (- a) b)) (div (- a) (- b)))))
(define-fun trem ((a Int) (b Int)) Int (ite (>= a 0) (mod a (ite (> b 0) b (- b))) (- (mod (- a) (ite (> b 0) b (- b))))))
(define-fun imin ((a Int) (b Int)) Int (ite (<= a b) a b))
(define-fun imax ((a Int) (b Int)) Int (ite (>= a b) a b))
(declare-fun band (Int Int) Int)
(declare-fun bor (Int Int) Int)
(declare-fun bxor (Int Int) Int)
(declare-fun shlv (Int Int) Int)
(declare-fun shrv (Int Int) Int)
`

// splitConj splits a formula into conjuncts through and / => / forall / (! … :pattern) so that each piece is a separate, smaller obligation.
func splitConj(t string, budget int) []string {
	if budget <= 1 || !strings.HasPrefix(t, "(") {
		return []string{t}
	}
	p := splitTop(t)
	switch p[0] {
	case "and":
		var out []string
		for _, x := range p[1:] {
			out = append(out, splitConj(x, budget/(len(p)-1)+1)...)
		}
		return out
	case "=>":
		if len(p) == 3 {
			var out []string
			for _, x := range splitConj(p[2], budget) {
				out = append(out, app("=>", p[1], x))
			}
			return out
		}
	case "forall":
		if len(p) == 3 {
			body := p[2]
			pat := ""
			if strings.HasPrefix(body, "(! ") {
				bp := splitTop(body)
				// (! body :pattern (...) ...)
				body = bp[1]
				pat = " " + strings.Join(bp[2:], " ")
			}
			pieces := splitConj(body, budget)
			if len(pieces) == 1 {
				return []string{t}
			}
			var out []string
			for _, x := range pieces {
				if pat != "" {
					out = append(out, fmt.Sprintf("(forall %s (! %s%s))", p[1], x, pat))
				} else {
					out = append(out, fmt.Sprintf("(forall %s %s)", p[1], x))
				}
			}
			return out
		}
	}
	return []string{t}
}
