package main

import (
	"fmt"
	"go/token"
	"go/types"
	"os"
	"path/filepath"
	"sort"
	"strings"

	"golang.org/x/tools/go/packages"
	"golang.org/x/tools/go/ssa"
	"golang.org/x/tools/go/ssa/ssautil"
)

type Engine struct {
	prog      *ssa.Program
	pkgs      []*packages.Package
	contracts *Contracts
	funcByKey map[string]*ssa.Function
	closures  map[string]*closureRec
	rootProps []string
	staleErrs []string
	wsCache   map[*ssa.Function]*writeSet
	wsBusy    map[*ssa.Function]bool
	ufDecls   map[string]string
	repoDir   string
	srcLines  map[string][]string
	kvstrPkgs map[string]bool // ext_kvstr.go
}

type writeSet struct {
	types []types.Type
	maps  []*types.Map
	all   bool
	alloc bool
}

var repoPkgs = []string{"./common", "./crypto", "./storage", "./kernel", "./p2p", "./util/base58", "./config"}

func loadEngine(repo string, specFiles []string) (*Engine, error) {
	os.Setenv("PATH", "/opt/veriftools/go1.26.8/bin:"+os.Getenv("PATH"))
	cfg := &packages.Config{
		Mode:       packages.NeedName | packages.NeedFiles | packages.NeedCompiledGoFiles | packages.NeedImports | packages.NeedDeps | packages.NeedTypes | packages.NeedTypesSizes | packages.NeedSyntax | packages.NeedTypesInfo | packages.NeedModule,
		Dir:        repo,
		BuildFlags: []string{"-mod=vendor", "-tags=verif"},
		Env:        append(os.Environ(), "GOFLAGS=-mod=vendor", "GOTOOLCHAIN=local", "GOPROXY=off", "GOSUMDB=off", "CGO_ENABLED=1"),
	}
	pkgs, err := packages.Load(cfg, repoPkgs...)
	if err != nil {
		return nil, err
	}
	nerr := 0
	for _, p := range pkgs {
		for _, e := range p.Errors {
			fmt.Fprintf(os.Stderr, "load error: %v\n", e)
			nerr++
		}
	}
	if nerr > 0 {
		return nil, fmt.Errorf("%d package load errors (the working tree does not type-check)", nerr)
	}
	prog, spkgs := ssautil.Packages(pkgs, ssa.GlobalDebug|ssa.InstantiateGenerics)
	for _, p := range spkgs {
		if p != nil {
			p.Build()
		}
	}
	eng := &Engine{prog: prog, pkgs: pkgs, funcByKey: map[string]*ssa.Function{}, closures: map[string]*closureRec{},
		wsCache: map[*ssa.Function]*writeSet{}, wsBusy: map[*ssa.Function]bool{}, ufDecls: map[string]string{}, repoDir: repo}
	for fn := range ssautil.AllFunctions(prog) {
		if fn.Pkg == nil && fn.Origin() == nil {
			continue
		}
		k := funcKey(fn)
		if old, ok := eng.funcByKey[k]; ok && len(old.Blocks) > 0 {
			continue
		}
		eng.funcByKey[k] = fn
	}
	// contract files: every zz_contracts_verif.go in the repo packages + trusted specs
	var files []string
	for _, p := range pkgs {
		for _, f := range p.CompiledGoFiles {
			if strings.Contains(filepath.Base(f), "zz_contracts") && strings.HasSuffix(f, "_verif.go") {
				files = append(files, f)
			}
		}
	}
	sort.Strings(files)
	files = append(files, specFiles...)
	contractsRepoDir = strings.TrimSuffix(repo, "/")
	cs, err := loadContracts(files)
	if err != nil {
		return nil, err
	}
	eng.contracts = cs
	return eng, nil
}

func (eng *Engine) isRepoFunc(fn *ssa.Function) bool {
	p := fn.Pkg
	if p == nil && fn.Origin() != nil {
		p = fn.Origin().Pkg
	}
	if p == nil && fn.Parent() != nil {
		p = fn.Parent().Pkg
	}
	return p != nil && strings.HasPrefix(p.Pkg.Path(), modPrefix)
}

func (eng *Engine) specFor(fn *ssa.Function) *FuncSpec {
	return eng.contracts.Funcs[funcKey(fn)]
}

func (eng *Engine) pkgOfSpec(spec *FuncSpec) *types.Package {
	for _, p := range eng.prog.AllPackages() {
		if p.Pkg.Path() == modPrefix+spec.Pkg {
			return p.Pkg
		}
	}
	for _, p := range eng.prog.AllPackages() {
		if shortType(p.Pkg.Path()) == spec.Pkg {
			return p.Pkg
		}
	}
	return nil
}

func (eng *Engine) pos(p token.Pos) string {
	if !p.IsValid() {
		return "?"
	}
	pp := eng.prog.Fset.Position(p)
	return fmt.Sprintf("%s:%d", strings.TrimPrefix(pp.Filename, eng.repoDir+"/"), pp.Line)
}

func (eng *Engine) stale(spec *FuncSpec, cl Clause, err error) {
	msg := fmt.Sprintf("contract-stale: %s: clause %q (%s): %v", spec.Key, cl.Text, cl.Src, err)
	for _, m := range eng.staleErrs {
		if m == msg {
			return
		}
	}
	eng.staleErrs = append(eng.staleErrs, msg)
}

func (eng *Engine) declareUF(fc *FnCtx, name string, argSorts []string, ret string) {
	sig := "(" + strings.Join(argSorts, " ") + ") " + ret
	if old, ok := fc.ufs[name]; ok {
		if old != sig {
			fc.warn("uninterpreted function %s used at two signatures: %s / %s", name, old, sig)
		}
		return
	}
	fc.ufs[name] = sig
	fc.ufList = append(fc.ufList, name)
}

// knownTotalPure: external functions that only format/log and never touch program state.
func (eng *Engine) knownTotalPure(key string) bool {
	for _, p := range []string{"fmt.Errorf", "fmt.Sprintf", "fmt.Sprint", "fmt.Sprintln", "errors.New", "logger.", "fmt.Printf", "fmt.Println",
		"encoding/hex.EncodeToString", "strings.Repeat", "strings.TrimSpace", "strings.HasPrefix", "strings.Contains", "strconv.Quote", "strconv.Itoa", "strconv.FormatUint", "strconv.FormatInt",
		"time.Now", "(time.Time).", "(time.Duration).", "time.Duration", "time.Unix", "time.Since", "runtime.", "(*sync.Mutex).", "(*sync.RWMutex).", "(*sync/atomic.",
		"sync/atomic.", "errors.Is", "(error).Error", "strings.", "strconv.", "unicode."} {
		if strings.HasPrefix(key, p) {
			return true
		}
	}
	return false
}

// writeSet: syntactic may-write set of a repository function (types stored to, maps updated), transitively.
func (eng *Engine) writeSet(fn *ssa.Function) *writeSet {
	if ws, ok := eng.wsCache[fn]; ok {
		return ws
	}
	if eng.wsBusy[fn] {
		return &writeSet{} // recursion: contributions are collected by the outer call
	}
	eng.wsBusy[fn] = true
	defer delete(eng.wsBusy, fn)
	ws := &writeSet{}
	seenT := map[string]bool{}
	addT := func(t types.Type) {
		k := types.TypeString(t, nil)
		if !seenT[k] {
			seenT[k] = true
			ws.types = append(ws.types, t)
		}
	}
	var merge func(o *writeSet)
	merge = func(o *writeSet) {
		if o.all {
			ws.all = true
		}
		if o.alloc {
			ws.alloc = true
		}
		for _, t := range o.types {
			addT(t)
		}
		ws.maps = append(ws.maps, o.maps...)
	}
	var scan func(f *ssa.Function)
	scan = func(f *ssa.Function) {
		for _, b := range f.Blocks {
			for _, in := range b.Instrs {
				switch x := in.(type) {
				case *ssa.Store:
					// stores to fresh local allocations still count (cheap over-approximation), except non-escaping Allocs
					if a, ok := x.Addr.(*ssa.Alloc); ok && !a.Heap {
						continue
					}
					addT(x.Addr.Type().Underlying().(*types.Pointer).Elem())
				case *ssa.MapUpdate:
					ws.maps = append(ws.maps, x.Map.Type().Underlying().(*types.Map))
				case *ssa.Alloc, *ssa.MakeSlice, *ssa.MakeMap, *ssa.MakeClosure:
					ws.alloc = true
				case *ssa.Go, *ssa.Select, *ssa.Send:
					ws.all = true
				case ssa.CallInstruction:
					c := x.Common()
					if bi, ok := c.Value.(*ssa.Builtin); ok {
						switch bi.Name() {
						case "append", "copy":
							if sl, ok := c.Args[0].Type().Underlying().(*types.Slice); ok {
								addT(types.NewArray(sl.Elem(), 1))
							}
							ws.alloc = true
						case "delete":
							ws.maps = append(ws.maps, c.Args[0].Type().Underlying().(*types.Map))
						}
						continue
					}
					var key string
					var callee *ssa.Function
					if c.IsInvoke() {
						key = "(" + shortType(types.TypeString(types.Unalias(c.Value.Type()), nil)) + ")." + c.Method.Name()
					} else if callee = c.StaticCallee(); callee != nil {
						key = funcKey(callee)
					} else {
						ws.all = true
						continue
					}
					if spec := eng.contracts.Funcs[key]; spec != nil && (spec.HasMod || spec.Trusted || spec.Assume) {
						if len(spec.Modifies) > 0 {
							// explicit frame: approximated by everything the spec may name -> conservative: all
							onlyGhost := true
							for _, m := range spec.Modifies {
								if m.Ghost == "" {
									onlyGhost = false
								}
							}
							if !onlyGhost {
								eng.specWrites(spec, c, ws, addT)
							}
						}
						if spec.Fresh {
							ws.alloc = true
						}
						continue
					}
					if callee != nil && len(callee.Blocks) > 0 && eng.isRepoFunc(callee) {
						merge(eng.writeSet(callee))
						continue
					}
					if eng.knownTotalPure(key) {
						continue
					}
					ws.all = true
				}
			}
		}
		for _, anon := range f.AnonFuncs {
			scan(anon)
		}
	}
	scan(fn)
	eng.wsCache[fn] = ws
	return ws
}

// specWrites over-approximates the types a contract's modifies clause may touch using the static argument types.
func (eng *Engine) specWrites(spec *FuncSpec, c *ssa.CallCommon, ws *writeSet, addT func(types.Type)) {
	for _, m := range spec.Modifies {
		if m.All {
			ws.all = true
			return
		}
	}
	// pointee / element types of every pointer or slice argument
	var vals []ssa.Value
	if c.IsInvoke() {
		vals = append(vals, c.Value)
	}
	vals = append(vals, c.Args...)
	whole := false
	for _, m := range spec.Modifies {
		whole = whole || m.Whole
	}
	for _, a := range vals {
		switch u := a.Type().Underlying().(type) {
		case *types.Pointer:
			addT(u.Elem())
			if st, ok := u.Elem().Underlying().(*types.Struct); ok && whole {
				// x[*] on a slice field of a pointer argument: the element blocks of its slice fields may be written
				for i := 0; i < st.NumFields(); i++ {
					if sl, ok := st.Field(i).Type().Underlying().(*types.Slice); ok {
						addT(types.NewArray(sl.Elem(), 1))
					}
				}
			}
		case *types.Slice:
			addT(types.NewArray(u.Elem(), 1))
		case *types.Map:
			ws.maps = append(ws.maps, u) // modifies m[..] on a map argument (C05)
		}
	}
}

func findSpecFiles(dir string) []string {
	m, _ := filepath.Glob(filepath.Join(dir, "*.spec"))
	sort.Strings(m)
	return m
}
