package main

import (
	"fmt"
	"go/types"
	"math/big"
	"sort"
	"strings"
)

// TypeCtx maps Go types to SMT sorts and records the datatype declarations needed.
type TypeCtx struct {
	structSort map[string]string // canonical struct type string -> sort name
	decls      []string          // sort declarations in dependency order
	declared   map[string]bool
	fieldID    map[string]int // "<struct type string>#<i>" -> global id
	opaque     map[string]string
	typeTag    map[string]int
	boxDecl    map[string]bool
	extraDecls []string
}

func newTypeCtx() *TypeCtx {
	return &TypeCtx{structSort: map[string]string{}, declared: map[string]bool{}, fieldID: map[string]int{},
		opaque: map[string]string{}, typeTag: map[string]int{}, boxDecl: map[string]bool{}}
}

const modPrefix = "github.com/MixinNetwork/mixin/"

func shortType(s string) string {
	s = strings.ReplaceAll(s, modPrefix, "")
	return s
}

func mangle(s string) string {
	s = shortType(s)
	var b strings.Builder
	for _, c := range s {
		switch {
		case c >= 'a' && c <= 'z', c >= 'A' && c <= 'Z', c >= '0' && c <= '9', c == '_':
			b.WriteRune(c)
		case c == '*':
			b.WriteString("P")
		case c == '[':
			b.WriteString("L")
		case c == ']':
			b.WriteString("R")
		default:
			b.WriteString("_")
		}
	}
	return b.String()
}

func isBigInt(t types.Type) bool {
	n, ok := t.(*types.Named)
	return ok && n.Obj().Pkg() != nil && n.Obj().Pkg().Path() == "math/big" && n.Obj().Name() == "Int"
}

func isRepoType(t types.Type) bool {
	n, ok := types.Unalias(t).(*types.Named)
	if !ok {
		return true // anonymous structs are ours
	}
	if n.Obj().Pkg() == nil {
		return false
	}
	return strings.HasPrefix(n.Obj().Pkg().Path(), modPrefix)
}

// isOpaque: struct types from outside the repository are uninterpreted leaf values.
func isOpaqueStruct(t types.Type) bool {
	t = types.Unalias(t)
	if _, ok := t.Underlying().(*types.Struct); !ok {
		return false
	}
	if isBigInt(t) || isTransparentExternal(t) {
		return false
	}
	return !isRepoType(t)
}

func intRange(b *types.Basic) (lo, hi *big.Int, ok bool) {
	switch b.Kind() {
	case types.Int, types.Int64:
		return new(big.Int).Neg(pow2(63)), pow2(63), true
	case types.Int32, types.UntypedRune:
		return new(big.Int).Neg(pow2(31)), pow2(31), true
	case types.Int16:
		return new(big.Int).Neg(pow2(15)), pow2(15), true
	case types.Int8:
		return new(big.Int).Neg(pow2(7)), pow2(7), true
	case types.Uint, types.Uint64, types.Uintptr:
		return big.NewInt(0), pow2(64), true
	case types.Uint32:
		return big.NewInt(0), pow2(32), true
	case types.Uint16:
		return big.NewInt(0), pow2(16), true
	case types.Uint8:
		return big.NewInt(0), pow2(8), true
	}
	return nil, nil, false
}

func isIntType(t types.Type) bool {
	b, ok := t.Underlying().(*types.Basic)
	return ok && b.Info()&types.IsInteger != 0
}

func isMathInt(t types.Type) bool {
	b, ok := t.(*types.Basic)
	return ok && b.Kind() == types.UntypedInt
}

var mathInt = types.Typ[types.UntypedInt]

func (tc *TypeCtx) sortOf(t types.Type) string {
	t = types.Unalias(t)
	if isBigInt(t) {
		return "Int"
	}
	if isOpaqueStruct(t) {
		name := "X_" + mangle(types.TypeString(t, nil))
		if !tc.declared[name] {
			tc.declared[name] = true
			tc.decls = append(tc.decls, fmt.Sprintf("(declare-sort %s 0)", name))
		}
		return name
	}
	switch u := t.Underlying().(type) {
	case *types.Basic:
		switch {
		case u.Info()&types.IsBoolean != 0:
			return "Bool"
		case u.Info()&types.IsInteger != 0:
			return "Int"
		case u.Info()&types.IsString != 0:
			return "Str"
		case u.Info()&types.IsFloat != 0:
			return "Real"
		case u.Kind() == types.UnsafePointer:
			return "Ptr"
		case u.Kind() == types.UntypedNil:
			return "Ptr"
		}
		return "Int"
	case *types.Pointer, *types.Map, *types.Chan, *types.Signature:
		return "Ptr"
	case *types.Slice:
		return "Slice"
	case *types.Interface:
		return "Iface"
	case *types.Array:
		return "(Array Int " + tc.sortOf(u.Elem()) + ")"
	case *types.Struct:
		key := types.TypeString(t, nil)
		if s, ok := tc.structSort[key]; ok {
			return s
		}
		name := "S_" + mangle(key)
		if len(name) > 80 {
			name = fmt.Sprintf("%s_%d", name[:60], len(tc.structSort))
		}
		tc.structSort[key] = name
		var fs []string
		for i := 0; i < u.NumFields(); i++ {
			fs = append(fs, fmt.Sprintf("(%s_f%d %s)", name, i, tc.sortOf(u.Field(i).Type())))
		}
		if len(fs) == 0 {
			tc.decls = append(tc.decls, fmt.Sprintf("(declare-datatypes ((%s 0)) (((mk-%s))))", name, name))
		} else {
			tc.decls = append(tc.decls, fmt.Sprintf("(declare-datatypes ((%s 0)) (((mk-%s %s))))", name, name, strings.Join(fs, " ")))
		}
		return name
	case *types.Tuple:
		return "Tuple"
	case *types.TypeParam:
		return "Int"
	}
	panic("sortOf: " + t.String())
}

// fieldKey gives a global id for field i of struct type t (so that Fld addresses of different struct types never collide).
func (tc *TypeCtx) fieldKey(t types.Type, i int) int {
	key := fmt.Sprintf("%s#%d", types.TypeString(types.Unalias(t), nil), i)
	if id, ok := tc.fieldID[key]; ok {
		return id
	}
	id := len(tc.fieldID) + 1
	tc.fieldID[key] = id
	return id
}

func (tc *TypeCtx) tagOf(t types.Type) int {
	key := types.TypeString(types.Unalias(t), nil)
	if id, ok := tc.typeTag[key]; ok {
		return id
	}
	id := len(tc.typeTag) + 1
	tc.typeTag[key] = id
	return id
}

// leafKey names the heap component that holds cells of leaf type t.
func (tc *TypeCtx) leafKey(t types.Type) string {
	t = types.Unalias(t)
	if isBigInt(t) {
		return "bigint"
	}
	if isOpaqueStruct(t) {
		return "x_" + mangle(types.TypeString(t, nil))
	}
	switch u := t.Underlying().(type) {
	case *types.Basic:
		// byte/uint8 and rune/int32 are the same type: name the component by kind
		if int(u.Kind()) < len(types.Typ) && types.Typ[u.Kind()] != nil {
			return types.Typ[u.Kind()].Name()
		}
		return u.Name()
	case *types.Pointer:
		return "p_" + mangle(types.TypeString(u.Elem(), nil))
	case *types.Slice:
		return "s_" + mangle(types.TypeString(u.Elem(), nil))
	case *types.Map:
		return "mapref"
	case *types.Interface:
		return "iface"
	case *types.Signature:
		return "func"
	case *types.Chan:
		return "chan"
	}
	return mangle(types.TypeString(t, nil))
}

func isStructT(t types.Type) bool {
	t = types.Unalias(t)
	if isBigInt(t) || isOpaqueStruct(t) {
		return false
	}
	_, ok := t.Underlying().(*types.Struct)
	return ok
}

func isArrayT(t types.Type) (*types.Array, bool) {
	a, ok := types.Unalias(t).Underlying().(*types.Array)
	return a, ok
}

// isLeaf: a type stored as one heap cell (not decomposed).
func isLeaf(t types.Type) bool {
	if isStructT(t) {
		return false
	}
	if _, ok := isArrayT(t); ok {
		return false
	}
	return true
}

// wf returns the typing invariant of term x at Go type t (ground part only), given watermark w ("" to skip pointer validity).
func (tc *TypeCtx) wf(x string, t types.Type, w string) string {
	t = types.Unalias(t)
	if isBigInt(t) || isOpaqueStruct(t) {
		return "true"
	}
	switch u := t.Underlying().(type) {
	case *types.Basic:
		if lo, hi, ok := intRange(u); ok {
			return and(app("<=", bignum(lo), x), app("<", x, bignum(hi)))
		}
		if u.Info()&types.IsString != 0 {
			return and(app(">=", app("strlen", x), "0"), app("<", app("strlen", x), "9223372036854775808"))
		}
	case *types.Map:
		// ext_mapiter.go: a map object has one underlying map type (maps of different types never alias)
		mt := tc.mapTypeFact(x, u)
		if w != "" {
			return and(app("<", app("root", x), w), app(">=", app("root", x), "0"), mt)
		}
		return mt
	case *types.Pointer, *types.Chan, *types.Signature:
		if w != "" {
			return and(app("<", app("root", x), w), app(">=", app("root", x), "0"))
		}
	case *types.Slice:
		c := and(app("<=", "0", soff(x)), app("<=", "0", slen(x)), app("<=", slen(x), scap(x)), app("<", scap(x), "9223372036854775808"),
			implies(eq(sarr(x), nilPtr), eq(scap(x), "0")))
		if w != "" {
			c = and(c, app("<", app("root", sarr(x)), w), app(">=", app("root", sarr(x)), "0"))
		}
		return c
	case *types.Interface:
		c := implies(eq(app("itag", x), "0"), eq(app("iptr", x), nilPtr))
		c = and(c, app(">=", app("itag", x), "0"))
		if w != "" {
			c = and(c, app("<", app("root", app("iptr", x)), w))
		}
		return c
	case *types.Struct:
		s := tc.sortOf(t)
		var cs []string
		for i := 0; i < u.NumFields(); i++ {
			cs = append(cs, tc.wf(app(fmt.Sprintf("%s_f%d", s, i), x), u.Field(i).Type(), w))
		}
		return and(cs...)
	case *types.Array:
		// canonical form: zero outside [0, N); elements of integer type are in range
		if eb, ok := u.Elem().Underlying().(*types.Basic); ok {
			c := fmt.Sprintf("(forall ((wi Int)) (! (=> (or (< wi 0) (>= wi %d)) (= (select %s wi) %s)) :pattern ((select %s wi))))", u.Len(), x, tc.zero(u.Elem()), x)
			if lo, hi, isInt := intRange(eb); isInt {
				c = and(c, fmt.Sprintf("(forall ((wi Int)) (! (and (<= %s (select %s wi)) (< (select %s wi) %s)) :pattern ((select %s wi))))", bignum(lo), x, x, bignum(hi), x))
			}
			return c
		}
	}
	return "true"
}

// zero value term of type t.
func (tc *TypeCtx) zero(t types.Type) string {
	t = types.Unalias(t)
	if isBigInt(t) {
		return "0"
	}
	if isOpaqueStruct(t) {
		s := tc.sortOf(t)
		name := "zero_" + s
		if !tc.declared[name] {
			tc.declared[name] = true
			tc.decls = append(tc.decls, fmt.Sprintf("(declare-const %s %s)", name, s))
		}
		return name
	}
	switch u := t.Underlying().(type) {
	case *types.Basic:
		switch {
		case u.Info()&types.IsBoolean != 0:
			return "false"
		case u.Info()&types.IsString != 0:
			return tc.strConst("")
		case u.Info()&types.IsFloat != 0:
			return "0.0"
		case u.Kind() == types.UnsafePointer || u.Kind() == types.UntypedNil:
			return nilPtr
		}
		return "0"
	case *types.Pointer, *types.Map, *types.Chan, *types.Signature:
		return nilPtr
	case *types.Slice:
		return nilSlice
	case *types.Interface:
		return "(mk-iface 0 (Base 0))"
	case *types.Array:
		return fmt.Sprintf("((as const %s) %s)", tc.sortOf(t), tc.zero(u.Elem()))
	case *types.Struct:
		s := tc.sortOf(t)
		if u.NumFields() == 0 {
			return "mk-" + s
		}
		var fs []string
		for i := 0; i < u.NumFields(); i++ {
			fs = append(fs, tc.zero(u.Field(i).Type()))
		}
		return app("mk-"+s, fs...)
	}
	return "0"
}

// strConst returns a constant symbol for a Go string literal (distinct literals are distinct; length known).
func (tc *TypeCtx) strConst(s string) string {
	name, ok := tc.opaque["str:"+s]
	if ok {
		return name
	}
	name = fmt.Sprintf("strk_%d", len(tc.opaque))
	tc.opaque["str:"+s] = name
	tc.extraDecls = append(tc.extraDecls, fmt.Sprintf("(declare-const %s Str)", name))
	tc.extraDecls = append(tc.extraDecls, fmt.Sprintf("(assert (= (strlen %s) %d))", name, len(s)))
	if len(s) <= 16 {
		for i := 0; i < len(s); i++ {
			tc.extraDecls = append(tc.extraDecls, fmt.Sprintf("(assert (= (strat %s %d) %d))", name, i, s[i]))
		}
	}
	return name
}

func (tc *TypeCtx) strDistinct() string {
	var names []string
	for k, v := range tc.opaque {
		if strings.HasPrefix(k, "str:") {
			names = append(names, v)
		}
	}
	if len(names) < 2 {
		return ""
	}
	sort.Strings(names)
	return "(assert (distinct " + strings.Join(names, " ") + "))"
}

// box/unbox functions for non-pointer values stored in interfaces.
func (tc *TypeCtx) boxFn(t types.Type) (box, unbox string) {
	s := tc.sortOf(t)
	m := mangle(types.TypeString(types.Unalias(t), nil))
	box, unbox = "box_"+m, "unbox_"+m
	if !tc.boxDecl[m] {
		tc.boxDecl[m] = true
		tc.decls = append(tc.decls, fmt.Sprintf("(declare-fun %s (%s) Ptr)", box, s))
		tc.decls = append(tc.decls, fmt.Sprintf("(declare-fun %s (Ptr) %s)", unbox, s))
	}
	return
}

// deepEq is Go's == on values of type t: arrays are compared on their index range only (SMT arrays are total).
func (tc *TypeCtx) deepEq(a, b string, t types.Type) string {
	t = types.Unalias(t)
	if isBigInt(t) || isOpaqueStruct(t) {
		return eq(a, b)
	}
	switch u := t.Underlying().(type) {
	case *types.Array:
		// array values are canonical (zero outside their index range, see wf), so SMT equality is Go equality
		if u.Len() <= 0 {
			var cs []string
			for i := int64(0); i < u.Len(); i++ {
				cs = append(cs, tc.deepEq(app("select", a, num(i)), app("select", b, num(i)), u.Elem()))
			}
			return and(cs...)
		}
	case *types.Struct:
		s := tc.sortOf(t)
		var cs []string
		for i := 0; i < u.NumFields(); i++ {
			f := fmt.Sprintf("%s_f%d", s, i)
			cs = append(cs, tc.deepEq(app(f, a), app(f, b), u.Field(i).Type()))
		}
		return and(cs...)
	}
	return eq(a, b)
}
