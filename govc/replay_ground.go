package main

import (
	"fmt"
	"go/types"
	"strings"
)

// Help for CANDIDATE models (solver answer `unknown`): with model-based quantifier instantiation switched off, z3 satisfies
// the ground part of the query and the instances E-matching happened to produce. Two additions make such a candidate much
// more likely to be a real input; both only add formulas that are TRUE of every real execution, so they never hide a bug:
//
//  1. heap typing axioms: every cell of the ENTRY heap holds a well-formed value of its type (slice headers, pointers below
//     the watermark, integers in range ...). The verification condition assumes this only for cells the path loads.
//  2. ground instances of the bounded universal quantifiers of the function's preconditions: for
//     `forall i :: lo <= i && i < hi ==> P(i)` the instances P(lo), P(lo+1), P(lo+2) (guarded), through spec functions and
//     nested quantifiers; together with a preference for short ranges (hi - lo <= 3) they cover the whole range.

const groundK = 3

// replayCompCount: number of heap components a function's verification condition had before the replay machinery
// evaluated extra specification instances (which may register more).
var replayCompCount = map[*FnCtx]int{}

// heapTypingAxioms renders (1) for the components the function's script declares.
func (fc *FnCtx) heapTypingAxioms(small bool) string {
	var b strings.Builder
	w := "H0_W"
	if small {
		// a PREFERENCE, not a fact: short slices / small readers everywhere (tried first; dropped when unsatisfiable)
		for _, p := range fc.root.Params {
			if _, ok := types.Unalias(p.Type()).Underlying().(*types.Slice); ok {
				n := "p_" + p.Name()
				fmt.Fprintf(&b, "(assert (and (<= (slen %s) 8) (<= (+ (soff %s) (scap %s)) 24)))\n", n, n, n)
			}
		}
	}
	for i, k := range fc.compList {
		if n := replayCompCount[fc]; n > 0 && i >= n {
			break // components registered only by the replay's own precondition instances: no axioms (they slow E-matching down)
		}
		srt := fc.comps[k]
		h := compInit(k)
		var cell, vars, pat string
		switch {
		case strings.HasPrefix(k, "C|") && strings.HasPrefix(srt, "(Array Ptr "):
			cell, vars, pat = "(select "+h+" hp)", "((hp Ptr))", "(select "+h+" hp)"
			srt = strings.TrimSuffix(strings.TrimPrefix(srt, "(Array Ptr "), ")")
		case strings.HasPrefix(k, "B|") && strings.HasPrefix(srt, "(Array Ptr (Array Int "):
			cell, vars, pat = "(select (select "+h+" hp) hi)", "((hp Ptr) (hi Int))", "(select (select "+h+" hp) hi)"
			srt = strings.TrimSuffix(strings.TrimPrefix(srt, "(Array Ptr (Array Int "), "))")
		default:
			continue
		}
		cond := ""
		switch srt {
		case "Slice":
			cond = and(app("<=", "0", soff(cell)), app("<=", "0", slen(cell)), app("<=", slen(cell), scap(cell)), app("<", scap(cell), "9223372036854775808"),
				implies(eq(sarr(cell), nilPtr), eq(scap(cell), "0")), app(">=", app("root", sarr(cell)), "0"), app("<", app("root", sarr(cell)), w))
			if small {
				cond = and(cond, app("<=", slen(cell), "8"), app("<=", app("+", soff(cell), scap(cell)), "24"))
			}
		case "Ptr":
			cond = and(app(">=", app("root", cell), "0"), app("<", app("root", cell), w))
		case "Iface":
			cond = and(implies(eq(app("itag", cell), "0"), eq(app("iptr", cell), nilPtr)), app(">=", app("itag", cell), "0"), app("<", app("root", app("iptr", cell)), w))
		case "Int":
			name := k[2:]
			for _, bt := range types.Typ {
				if bt != nil && bt.Name() == name {
					if lo, hi, ok := intRange(bt); ok {
						cond = and(app("<=", bignum(lo), cell), app("<", cell, bignum(hi)))
					}
				}
			}
		}
		if cond == "" || cond == "true" {
			continue
		}
		fmt.Fprintf(&b, "(assert (forall %s (! %s :pattern (%s))))\n", vars, cond, pat)
	}
	// a bytes.Reader is always at a position inside its data
	_, hasLen := fc.ufs["sf_bytes_rdlen"]
	_, hasPos := fc.ufs["sf_bytes_rdpos"]
	if hasLen && hasPos {
		b.WriteString("(assert (forall ((hr X_bytes_Reader)) (! (and (<= 0 (sf_bytes_rdpos hr)) (<= (sf_bytes_rdpos hr) (sf_bytes_rdlen hr))) :pattern ((sf_bytes_rdpos hr)) :pattern ((sf_bytes_rdlen hr)))))\n")
		if small {
			b.WriteString("(assert (forall ((hr X_bytes_Reader)) (! (<= (sf_bytes_rdlen hr) 256) :pattern ((sf_bytes_rdlen hr)))))\n")
		}
	}
	return b.String()
}

// renderForReplay is renderOne without the final check-sat and, when light is set, without the QUANTIFIED assumptions
// that stem from earlier obligations of the function. Those are lemmas (checked consequences of what precedes them), so
// leaving them out changes nothing logically but spares the candidate search a lot of E-matching.
func (fc *FnCtx) renderForReplay(target *Obligation, light bool) string {
	var b strings.Builder
	b.WriteString(fc.preamble())
	for _, it := range fc.script {
		if it.ob == nil {
			b.WriteString(it.cmd + "\n")
			continue
		}
		ob := it.ob
		if ob == target {
			fmt.Fprintf(&b, "(assert (and %s (not %s)))\n", ob.Guard, ob.Cond)
			return b.String()
		}
		if !ob.Cover {
			if c := implies(ob.Guard, ob.Cond); c != "true" {
				if light && (strings.Contains(c, "(forall ") || strings.Contains(c, "(exists ")) {
					continue
				}
				b.WriteString("(assert " + c + ")\n")
			}
		}
	}
	return b.String()
}

// substExpr replaces free occurrences of names in e.
func substExpr(e Expr, sub map[string]Expr) Expr {
	if e == nil || len(sub) == 0 {
		return e
	}
	without := func(names ...string) map[string]Expr {
		n := map[string]Expr{}
		for k, v := range sub {
			n[k] = v
		}
		for _, x := range names {
			delete(n, x)
		}
		return n
	}
	switch x := e.(type) {
	case *EIdent:
		if r, ok := sub[x.Name]; ok {
			return r
		}
		return x
	case *EUnary:
		return &EUnary{x.Op, substExpr(x.X, sub)}
	case *EBinary:
		return &EBinary{x.Op, substExpr(x.X, sub), substExpr(x.Y, sub)}
	case *ESel:
		return &ESel{substExpr(x.X, sub), x.Name}
	case *EIndex:
		return &EIndex{substExpr(x.X, sub), substExpr(x.I, sub)}
	case *ESlice:
		return &ESlice{substExpr(x.X, sub), substExpr(x.Lo, sub), substExpr(x.Hi, sub)}
	case *ECall:
		n := &ECall{Fn: x.Fn}
		if _, isId := x.Fn.(*EIdent); !isId {
			n.Fn = substExpr(x.Fn, sub)
		}
		for _, a := range x.Args {
			n.Args = append(n.Args, substExpr(a, sub))
		}
		return n
	case *EQuant:
		var names []string
		for _, v := range x.Vars {
			names = append(names, v.Name)
		}
		s2 := without(names...)
		n := &EQuant{Forall: x.Forall, Vars: x.Vars, Body: substExpr(x.Body, s2)}
		for _, tr := range x.Trig {
			var ts []Expr
			for _, t := range tr {
				ts = append(ts, substExpr(t, s2))
			}
			n.Trig = append(n.Trig, ts)
		}
		return n
	case *EOld:
		return &EOld{substExpr(x.X, sub)}
	case *ELet:
		return &ELet{x.Name, substExpr(x.Val, sub), substExpr(x.Body, without(x.Name))}
	case *EIte:
		return &EIte{substExpr(x.C, sub), substExpr(x.A, sub), substExpr(x.B, sub)}
	}
	return e
}

type grounder struct {
	fc     *FnCtx
	pkg    *types.Package
	out    []Expr // ground consequences of the preconditions
	short  []Expr // range-size preferences: hi - lo <= K
	budget int
}

func conj(hyps []Expr, leaf Expr) Expr {
	if len(hyps) == 0 {
		return leaf
	}
	h := hyps[0]
	for _, x := range hyps[1:] {
		h = &EBinary{"&&", h, x}
	}
	return &EBinary{"==>", h, leaf}
}

// quantBounds finds lower / upper bound expressions of bound variable v among the guard conjuncts.
func quantBounds(v string, later map[string]bool, guards []Expr) (lo Expr, hi Expr, ok bool) {
	free := func(e Expr) bool {
		for w := range later {
			if exprMentions(e, w) {
				return false
			}
		}
		return true
	}
	isV := func(e Expr) bool {
		id, ok := e.(*EIdent)
		return ok && id.Name == v
	}
	one := &ENum{"1"}
	for _, g := range guards {
		b, isB := g.(*EBinary)
		if !isB {
			continue
		}
		switch {
		case isV(b.Y) && free(b.X) && b.Op == "<=" && lo == nil:
			lo = b.X
		case isV(b.Y) && free(b.X) && b.Op == "<" && lo == nil:
			lo = &EBinary{"+", b.X, one}
		case isV(b.X) && free(b.Y) && b.Op == ">=" && lo == nil:
			lo = b.Y
		case isV(b.X) && free(b.Y) && b.Op == ">" && lo == nil:
			lo = &EBinary{"+", b.Y, one}
		case isV(b.X) && free(b.Y) && b.Op == "<" && hi == nil:
			hi = b.Y
		case isV(b.X) && free(b.Y) && b.Op == "<=" && hi == nil:
			hi = &EBinary{"+", b.Y, one}
		case isV(b.Y) && free(b.X) && b.Op == ">" && hi == nil:
			hi = b.X
		case isV(b.Y) && free(b.X) && b.Op == ">=" && hi == nil:
			hi = &EBinary{"+", b.X, one}
		}
	}
	return lo, hi, lo != nil && hi != nil
}

func (g *grounder) collect(e Expr, hyps []Expr, depth int) {
	if g.budget <= 0 || depth > 24 {
		return
	}
	switch x := e.(type) {
	case *EBinary:
		switch x.Op {
		case "&&":
			g.collect(x.X, hyps, depth+1)
			g.collect(x.Y, hyps, depth+1)
			return
		case "==>":
			g.collect(x.Y, append(append([]Expr{}, hyps...), x.X), depth+1)
			return
		}
	case *EIte:
		g.collect(x.A, append(append([]Expr{}, hyps...), x.C), depth+1)
		g.collect(x.B, append(append([]Expr{}, hyps...), &EUnary{"!", x.C}), depth+1)
		return
	case *ECall:
		if id, ok := x.Fn.(*EIdent); ok {
			se := &SpecEnv{fc: g.fc, pkg: g.pkg}
			if sf := se.lookupSpecFn(id.Name); sf != nil && !sf.Rec && !sf.Uninterp && len(sf.Params) == len(x.Args) && sf.Pkg == shortType(g.pkg.Path()) {
				sub := map[string]Expr{}
				for i, p := range sf.Params {
					sub[p.Name] = x.Args[i]
				}
				g.collect(substExpr(sf.Body, sub), hyps, depth+1)
				return
			}
		}
	case *EQuant:
		if x.Forall {
			var guards []Expr
			b := x.Body
			for {
				imp, ok := b.(*EBinary)
				if !ok || imp.Op != "==>" {
					break
				}
				conjuncts(imp.X, &guards)
				b = imp.Y
			}
			type bound struct{ lo, hi Expr }
			var bs []bound
			ok := true
			for vi, v := range x.Vars {
				if !replayIntConv[v.Type] {
					ok = false
					break
				}
				later := map[string]bool{}
				for _, w := range x.Vars[vi:] {
					later[w.Name] = true
				}
				lo, hi, found := quantBounds(v.Name, later, guards)
				if !found {
					ok = false
					break
				}
				bs = append(bs, bound{lo, hi})
			}
			if ok {
				// all tuples (d1..dn) in [0,K)^n
				n := len(x.Vars)
				total := 1
				for i := 0; i < n; i++ {
					total *= groundK
				}
				for t := 0; t < total; t++ {
					sub := map[string]Expr{}
					r := t
					for i, v := range x.Vars {
						d := r % groundK
						r /= groundK
						lo := substExpr(bs[i].lo, sub) // bounds may mention earlier variables
						sub[v.Name] = &EBinary{"+", lo, &ENum{fmt.Sprint(d)}}
					}
					g.collect(substExpr(x.Body, sub), hyps, depth+1)
				}
				if len(hyps) == 0 || true {
					for i := range x.Vars {
						if i == 0 || !exprMentions(bs[i].hi, x.Vars[0].Name) {
							sz := &EBinary{"<=", &EBinary{"-", bs[i].hi, bs[i].lo}, &ENum{fmt.Sprint(groundK)}}
							mentionsBound := false
							for _, v := range x.Vars {
								if exprMentions(sz, v.Name) {
									mentionsBound = true
								}
							}
							if !mentionsBound {
								g.short = append(g.short, conj(hyps, sz))
							}
						}
					}
				}
				return
			}
		}
	}
	g.budget--
	g.out = append(g.out, conj(hyps, e))
}

// refinePreconditions (second step, needs a candidate model): the quantifier ranges of the preconditions are read from
// the current candidate (lengths of the slices it chose), pinned, and the quantifiers are instantiated over exactly those
// ranges; the solver is asked again. The new candidate then satisfies the preconditions on its own data (as far as they
// are bounded universal statements). Keeps the old candidate when the pinned problem is not satisfiable.
func (m *modelReader) refinePreconditions(spec *FuncSpec) (instances int, kept bool) {
	fc := m.fc
	if spec == nil || len(spec.Requires) == 0 || fc.root == nil || m.s.base == "sat" {
		return 0, false
	}
	fn := fc.root
	st := &State{heap: map[string]string{}}
	env := &SpecEnv{fc: fc, vars: map[string]SV{}, cur: st, old: st, pkg: fn.Pkg.Pkg}
	names := paramNames(spec, fn.Signature)
	for i, p := range fn.Params {
		sv := SV{t: "p_" + p.Name(), typ: p.Type()}
		env.vars[p.Name()] = sv
		if i < len(names) {
			env.vars[names[i]] = sv
		}
	}
	nScript, nComp, nUF, nDecl, nExtra := len(fc.script), len(fc.compList), len(fc.ufList), len(fc.tc.decls), len(fc.tc.extraDecls)
	clean := func() bool { // did the last evaluation need anything the solver has not seen?
		return len(fc.script) == nScript && len(fc.compList) == nComp && len(fc.ufList) == nUF && len(fc.tc.decls) == nDecl && len(fc.tc.extraDecls) == nExtra
	}
	evalTerm := func(e Expr, wantBool bool) (t string, ok bool) {
		defer func() {
			if r := recover(); r != nil {
				if _, isU := r.(unsupportedErr); isU {
					panic(r)
				}
				t, ok = "", false
			}
		}()
		if wantBool {
			s, err := env.evalBool(e)
			return s, err == nil
		}
		v := env.eval(e)
		return v.t, fc.tc.sortOfSV(v) == "Int"
	}
	var pins, insts []string
	pinned := map[string]bool{}
	budget := 800
	se := &SpecEnv{fc: fc, pkg: fn.Pkg.Pkg}
	var walk func(e Expr, hyps []Expr, depth int)
	walk = func(e Expr, hyps []Expr, depth int) {
		if budget <= 0 || depth > 40 {
			return
		}
		switch x := e.(type) {
		case *EBinary:
			switch x.Op {
			case "&&":
				walk(x.X, hyps, depth+1)
				walk(x.Y, hyps, depth+1)
				return
			case "==>":
				walk(x.Y, append(append([]Expr{}, hyps...), x.X), depth+1)
				return
			}
		case *EIte:
			walk(x.A, append(append([]Expr{}, hyps...), x.C), depth+1)
			walk(x.B, append(append([]Expr{}, hyps...), &EUnary{"!", x.C}), depth+1)
			return
		case *ECall:
			if id, ok := x.Fn.(*EIdent); ok {
				if sf := se.lookupSpecFn(id.Name); sf != nil && !sf.Rec && !sf.Uninterp && len(sf.Params) == len(x.Args) && sf.Pkg == shortType(fn.Pkg.Pkg.Path()) {
					sub := map[string]Expr{}
					for i, p := range sf.Params {
						sub[p.Name] = x.Args[i]
					}
					walk(substExpr(sf.Body, sub), hyps, depth+1)
					return
				}
			}
		case *EQuant:
			if x.Forall {
				var guards []Expr
				b := x.Body
				for {
					imp, ok := b.(*EBinary)
					if !ok || imp.Op != "==>" {
						break
					}
					conjuncts(imp.X, &guards)
					b = imp.Y
				}
				var rec func(vi int, sub map[string]Expr) bool
				rec = func(vi int, sub map[string]Expr) bool {
					if vi == len(x.Vars) {
						walk(substExpr(x.Body, sub), hyps, depth+1)
						return true
					}
					v := x.Vars[vi]
					if !replayIntConv[v.Type] {
						return false
					}
					later := map[string]bool{}
					for _, w := range x.Vars[vi:] {
						later[w.Name] = true
					}
					lo, hi, found := quantBounds(v.Name, later, guards)
					if !found {
						return false
					}
					lo, hi = substExpr(lo, sub), substExpr(hi, sub)
					lt, ok1 := evalTerm(lo, false)
					ht, ok2 := evalTerm(hi, false)
					if !ok1 || !ok2 || !clean() {
						return false
					}
					vs := m.get(lt, ht)
					lv, okl := sxInt(vs[0])
					hv, okh := sxInt(vs[1])
					if !okl || !okh || !lv.IsInt64() || !hv.IsInt64() {
						return false
					}
					for i, t := range []string{lt, ht} {
						if strings.Contains(t, " ") && !pinned[t] { // not a literal
							pinned[t] = true
							pins = append(pins, fmt.Sprintf("(assert (= %s %s))", t, vs[i].String()))
						}
					}
					l, h := lv.Int64(), hv.Int64()
					if h-l > 12 {
						h = l + 12 // longer ranges are instantiated on their first elements only
					}
					for k := l; k < h && budget > 0; k++ {
						s2 := map[string]Expr{}
						for a, b := range sub {
							s2[a] = b
						}
						s2[v.Name] = &ENum{fmt.Sprint(k)}
						if !rec(vi+1, s2) {
							return false
						}
					}
					return true
				}
				if rec(0, map[string]Expr{}) {
					return
				}
			}
		}
		budget--
		if t, ok := evalTerm(conj(hyps, e), true); ok && t != "true" {
			insts = append(insts, "(assert "+t+")")
		}
	}
	for _, cl := range spec.Requires {
		walk(cl.E, nil, 0)
	}
	var decl []string
	decl = append(decl, fc.tc.decls[nDecl:]...)
	for _, k := range fc.compList[nComp:] {
		decl = append(decl, fmt.Sprintf("(declare-const %s %s)", compInit(k), fc.comps[k]))
	}
	for _, u := range fc.ufList[nUF:] {
		decl = append(decl, fmt.Sprintf("(declare-fun %s %s)", u, fc.ufs[u]))
	}
	decl = append(decl, fc.tc.extraDecls[nExtra:]...)
	for _, it := range fc.script[nScript:] {
		if it.ob == nil {
			decl = append(decl, it.cmd)
		}
	}
	fc.script = fc.script[:nScript]
	if len(insts) == 0 {
		return 0, false
	}
	all := append(append(decl, pins...), insts...)
	return len(insts), m.shapeCmds(strings.Join(all, "\n") + "\n")
}

// groundPreconditions returns SMT commands asserting ground instances of the function's preconditions (entry state), and
// commands preferring short quantifier ranges (to be asserted under a push: they may be unsatisfiable).
func (fc *FnCtx) groundPreconditions(spec *FuncSpec) (asserts string, prefer string, n int) {
	if spec == nil || len(spec.Requires) == 0 || fc.root == nil {
		return "", "", 0
	}
	fn := fc.root
	g := &grounder{fc: fc, pkg: fn.Pkg.Pkg, budget: 600}
	for _, cl := range spec.Requires {
		g.collect(cl.E, nil, 0)
	}
	st := &State{heap: map[string]string{}}
	env := &SpecEnv{fc: fc, vars: map[string]SV{}, cur: st, old: st, pkg: fn.Pkg.Pkg}
	names := paramNames(spec, fn.Signature)
	for i, p := range fn.Params {
		sv := SV{t: "p_" + p.Name(), typ: p.Type()}
		env.vars[p.Name()] = sv
		if i < len(names) {
			env.vars[names[i]] = sv
		}
	}
	nScript, nComp, nUF, nDecl, nExtra := len(fc.script), len(fc.compList), len(fc.ufList), len(fc.tc.decls), len(fc.tc.extraDecls)
	var as, pr []string
	eval := func(e Expr) (string, bool) {
		t, err := func() (t string, err error) {
			defer func() {
				if r := recover(); r != nil {
					err = fmt.Errorf("%v", r)
				}
			}()
			return env.evalBool(e)
		}()
		return t, err == nil && t != "true"
	}
	for _, e := range g.out {
		if t, ok := eval(e); ok {
			as = append(as, "(assert "+t+")")
			n++
		}
	}
	for _, e := range g.short {
		if t, ok := eval(e); ok {
			pr = append(pr, "(assert "+t+")")
		}
	}
	// Sorts, heap components and functions the evaluation may have registered are declared by the preamble, PROVIDED the
	// query is rendered after this call (genericReplay does); only definitions emitted into the script are returned here.
	_, _, _, _ = nComp, nUF, nDecl, nExtra
	var decl []string
	for _, it := range fc.script[nScript:] {
		if it.ob == nil {
			decl = append(decl, it.cmd)
		}
	}
	fc.script = fc.script[:nScript]
	all := append(decl, as...)
	return strings.Join(all, "\n") + "\n", strings.Join(pr, "\n") + "\n", n
}
