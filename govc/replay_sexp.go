package main

import (
	"fmt"
	"math/big"
	"strings"
)

// Minimal S-expression reader for solver answers (get-value output): atoms, lists, "strings", |quoted symbols|.

type sx struct {
	atom string
	list []*sx
	isL  bool
}

func (x *sx) String() string {
	if x == nil {
		return "?"
	}
	if !x.isL {
		return x.atom
	}
	var ps []string
	for _, e := range x.list {
		ps = append(ps, e.String())
	}
	return "(" + strings.Join(ps, " ") + ")"
}

func (x *sx) head() string {
	if x != nil && x.isL && len(x.list) > 0 && !x.list[0].isL {
		return x.list[0].atom
	}
	return ""
}

// parseSx parses one s-expression from s starting at i; returns the node and the index after it.
func parseSx(s string, i int) (*sx, int, error) {
	for i < len(s) && (s[i] == ' ' || s[i] == '\n' || s[i] == '\t' || s[i] == '\r') {
		i++
	}
	if i >= len(s) {
		return nil, i, fmt.Errorf("sexp: unexpected end")
	}
	switch s[i] {
	case '(':
		n := &sx{isL: true}
		i++
		for {
			for i < len(s) && (s[i] == ' ' || s[i] == '\n' || s[i] == '\t' || s[i] == '\r') {
				i++
			}
			if i >= len(s) {
				return nil, i, fmt.Errorf("sexp: unbalanced")
			}
			if s[i] == ')' {
				return n, i + 1, nil
			}
			c, j, err := parseSx(s, i)
			if err != nil {
				return nil, j, err
			}
			n.list = append(n.list, c)
			i = j
		}
	case ')':
		return nil, i, fmt.Errorf("sexp: unexpected )")
	case '"':
		j := i + 1
		for j < len(s) {
			if s[j] == '"' {
				if j+1 < len(s) && s[j+1] == '"' {
					j += 2
					continue
				}
				break
			}
			j++
		}
		if j >= len(s) {
			return nil, j, fmt.Errorf("sexp: unterminated string")
		}
		return &sx{atom: s[i : j+1]}, j + 1, nil
	case '|':
		j := strings.IndexByte(s[i+1:], '|')
		if j < 0 {
			return nil, len(s), fmt.Errorf("sexp: unterminated |symbol|")
		}
		return &sx{atom: s[i : i+j+2]}, i + j + 2, nil
	}
	j := i
	for j < len(s) && !strings.ContainsRune(" \n\t\r()", rune(s[j])) {
		j++
	}
	return &sx{atom: s[i:j]}, j, nil
}

// sxInt reads an integer value: 5, (- 5), (- (- 5)).
func sxInt(x *sx) (*big.Int, bool) {
	if x == nil {
		return nil, false
	}
	if !x.isL {
		n, ok := new(big.Int).SetString(x.atom, 10)
		return n, ok
	}
	if len(x.list) == 2 && x.head() == "-" {
		n, ok := sxInt(x.list[1])
		if !ok {
			return nil, false
		}
		return new(big.Int).Neg(n), true
	}
	return nil, false
}

// sxComplete reports whether buf holds at least one complete answer (an atom line or a balanced list).
func sxComplete(buf string) bool {
	t := strings.TrimLeft(buf, " \n\t\r")
	if t == "" {
		return false
	}
	if t[0] != '(' {
		return strings.ContainsRune(t, '\n')
	}
	_, _, err := parseSx(t, 0)
	return err == nil
}
