package main

import (
	"fmt"
	"go/token"
	"go/types"
	"strings"

	"golang.org/x/tools/go/ssa"
)

type closureRec struct {
	fn       *ssa.Function
	bindings []SV
}

func (fr *Frame) resultSVs(sig *types.Signature, prefix string, st *State, g string) []SV {
	fc := fr.fc
	var res []SV
	for i := 0; i < sig.Results().Len(); i++ {
		t := sig.Results().At(i).Type()
		v := fc.fresh(fmt.Sprintf("%s_r%d", prefix, i), fc.tc.sortOf(t))
		res = append(res, SV{t: v, typ: t})
	}
	return res
}

func (fr *Frame) assumeWF(res []SV, st *State, g string) {
	for _, r := range res {
		fr.fc.assume(g, fr.fc.tc.wf(r.t, r.typ, fr.fc.watermark(st)))
	}
}

func (fr *Frame) call(in ssa.Instruction, c *ssa.CallCommon, st *State, g string) []SV {
	fc := fr.fc
	pos := in.Pos()
	if b, ok := c.Value.(*ssa.Builtin); ok {
		return fr.builtin(in, b, c, st, g)
	}
	var args []SV
	var sig *types.Signature
	var key string
	var callee *ssa.Function
	var bindings []SV
	if c.IsInvoke() {
		recv := fr.val(c.Value)
		fr.safe("nil", g, not(eq(app("itag", recv.t), "0")), pos, "method call on nil interface")
		args = append(args, recv)
		sig = c.Method.Type().(*types.Signature)
		key = "(" + shortType(types.TypeString(types.Unalias(c.Value.Type()), nil)) + ")." + c.Method.Name()
		if _, ok := fc.eng.contracts.Funcs[key]; !ok {
			// try the interface in which the method is declared (embedded interfaces)
			if recvT := sig.Recv(); recvT != nil {
				k2 := "(" + shortType(types.TypeString(types.Unalias(recvT.Type()), nil)) + ")." + c.Method.Name()
				if _, ok := fc.eng.contracts.Funcs[k2]; ok {
					key = k2
				}
			}
		}
	} else if callee = c.StaticCallee(); callee != nil {
		sig = callee.Signature
		key = funcKey(callee)
		if mc, ok := c.Value.(*ssa.MakeClosure); ok {
			for _, b := range mc.Bindings {
				bindings = append(bindings, fr.val(b))
			}
		}
	} else {
		// dynamic call through a function value
		fv := fr.val(c.Value)
		if rec, ok := fc.eng.closures[fv.t]; ok {
			callee, bindings = rec.fn, rec.bindings
			sig = callee.Signature
			key = funcKey(callee)
		} else {
			sig = c.Value.Type().Underlying().(*types.Signature)
			fc.warn("dynamic call through unknown function value at %s: havoc everything", fc.eng.pos(pos))
			fc.noteWriteAll()
			fc.havocComps(st, nil, true)
			res := fr.resultSVs(sig, fr.prefix+"dyn", st, g)
			fr.assumeWF(res, st, g)
			return res
		}
	}
	for _, a := range c.Args {
		args = append(args, fr.val(a))
	}
	spec := fc.eng.contracts.Funcs[key]
	fc.calleesUsed[key] = true
	if key == "sort.Slice" && fr.sortSliceModel(c, st, g, pos) {
		return nil
	}
	if spec != nil && !(spec.Inline && callee != nil && len(callee.Blocks) > 0) {
		return fr.applySpec(spec, key, sig, args, st, g, pos)
	}
	if callee != nil && len(callee.Blocks) > 0 && fc.eng.isRepoFunc(callee) {
		if fc.canInline(fr, callee, spec) {
			return fr.inline(callee, args, bindings, st, g, pos)
		}
		// default summary: inferred frame, unconstrained well-typed results
		ws := fc.eng.writeSet(callee)
		fc.assumes["default-summary: "+key+" (inferred frame, no postcondition)"] = true
		if ws.all {
			fc.noteWriteAll()
			fc.havocComps(st, nil, true)
		} else {
			keys := map[string]bool{}
			for _, t := range ws.types {
				fc.compsOfType(t, keys)
			}
			for _, m := range ws.maps {
				mh, mv := fc.mapComps(m)
				keys[mh], keys[mv], keys["ML"] = true, true, true
			}
			keys["W"] = true
			for k := range keys {
				fc.noteWrite(k)
			}
			fc.havocComps(st, keys, false)
		}
		res := fr.resultSVs(sig, fr.prefix+"c", st, g)
		fr.assumeWF(res, st, g)
		return res
	}
	// external function without a trusted contract
	if fc.eng.knownTotalPure(key) {
		fc.bumpWatermark(st)
		res := fr.resultSVs(sig, fr.prefix+"x", st, g)
		fr.assumeWF(res, st, g)
		return res
	}
	fc.warn("call to %s without contract at %s: havoc everything", key, fc.eng.pos(pos))
	fc.assumes["unspecified external call "+key+" (havoc)"] = true
	fc.noteWriteAll()
	fc.havocComps(st, nil, true)
	res := fr.resultSVs(sig, fr.prefix+"x", st, g)
	fr.assumeWF(res, st, g)
	return res
}

func (fc *FnCtx) canInline(fr *Frame, callee *ssa.Function, spec *FuncSpec) bool {
	if spec != nil && spec.Inline {
		return fr.depth < 8
	}
	if fr.depth >= 4 {
		return false
	}
	for f := fr; f != nil; f = f.callerFrame {
		if f.fn == callee {
			return false
		}
	}
	n := 0
	for _, b := range callee.Blocks {
		n += len(b.Instrs)
		for _, in := range b.Instrs {
			switch in.(type) {
			case *ssa.Go, *ssa.Select, *ssa.Send, *ssa.MakeChan:
				return false
			}
		}
		for _, s := range b.Succs {
			if isBackEdge(b, s) {
				return false // loops need invariants: summarise instead
			}
		}
	}
	return n <= 60
}

func (fr *Frame) inline(callee *ssa.Function, args []SV, bindings []SV, st *State, g string, pos token.Pos) []SV {
	fc := fr.fc
	fc.inlineN++
	sub := fc.newFrame(callee, fmt.Sprintf("i%d_", fc.inlineN), fr.depth+1, false)
	sub.spec = nil
	sub.bindings = bindings
	sub.callerFrame = fr
	saved := fc.curFrame
	sub.walk(st, args, g)
	fc.curFrame = saved
	// merge returns
	sig := callee.Signature
	if len(sub.rets) == 0 {
		// never returns (always panics)
		fc.assume(g, "false")
		res := fr.resultSVs(sig, fr.prefix+"nr", st, g)
		return res
	}
	// state merge
	var edges []inEdge
	tmpOut := map[*ssa.BasicBlock]*State{}
	for i, r := range sub.rets {
		b := &ssa.BasicBlock{Index: 100000 + i}
		tmpOut[b] = r.state
		edges = append(edges, inEdge{pred: b, guard: r.guard})
	}
	savedOut := fr.out
	fr.out = tmpOut
	merged := fr.mergeStates(edges)
	fr.out = savedOut
	st.heap = merged.heap
	var res []SV
	for i := 0; i < sig.Results().Len(); i++ {
		t := sig.Results().At(i).Type()
		cur := ""
		for j := len(sub.rets) - 1; j >= 0; j-- {
			x := sub.rets[j].results[i].t
			if cur == "" {
				cur = x
			} else {
				cur = ite(sub.rets[j].guard, x, cur)
			}
		}
		res = append(res, SV{t: fc.define(sub.prefix+"ret", fc.tc.sortOf(t), cur), typ: t})
	}
	// after the call we are on a path where the callee returned
	var gs []string
	for _, r := range sub.rets {
		gs = append(gs, r.guard)
	}
	fc.assume(g, or(gs...))
	return res
}

// applySpec applies a callee contract at a call site.
func (fr *Frame) applySpec(spec *FuncSpec, key string, sig *types.Signature, args []SV, st *State, g string, pos token.Pos) []SV {
	fc := fr.fc
	if spec.Assume {
		fc.assumes["assumed contract: "+key+" ("+spec.Src+")"] = true
	}
	env := &SpecEnv{fc: fc, vars: map[string]SV{}, cur: st, old: st, pkg: fc.eng.pkgOfSpec(spec)}
	names := paramNames(spec, sig)
	for i, a := range args {
		if i < len(names) {
			env.vars[names[i]] = a
		}
	}
	for i, cl := range spec.Requires {
		t, err := env.evalBool(cl.E)
		if err != nil {
			fc.eng.stale(spec, cl, err)
			continue
		}
		label := cl.Label
		if label == "" {
			label = fmt.Sprint(i)
		}
		fc.oblige(fr, "pre", key+":"+label, g, t, pos, cl.Text, fr.props())
		fc.assume(g, t)
	}
	for i, cl := range spec.PanicsWhen {
		t, err := env.evalBool(cl.E)
		if err != nil {
			fc.eng.stale(spec, cl, err)
			continue
		}
		fc.oblige(fr, "pre", fmt.Sprintf("%s:nopanic%d", key, i), g, not(t), pos, "callee panics when "+cl.Text, fr.props())
		fc.assume(g, not(t))
	}
	old := st.clone()
	// frame
	if !spec.HasMod && !spec.Trusted && !spec.Assume {
		// verified repo function without modifies clause: inferred syntactic frame
		if callee := fc.eng.funcByKey[key]; callee != nil {
			ws := fc.eng.writeSet(callee)
			if ws.all {
				fc.noteWriteAll()
				fc.havocComps(st, nil, true)
			} else {
				keys := map[string]bool{}
				for _, t := range ws.types {
					fc.compsOfType(t, keys)
				}
				for _, m := range ws.maps {
					mh, mv := fc.mapComps(m)
					keys[mh], keys[mv], keys["ML"] = true, true, true
				}
				if ws.alloc {
					keys["W"] = true
				}
				for k := range keys {
					fc.noteWrite(k)
				}
				fc.havocComps(st, keys, false)
			}
		}
	}
	for _, m := range spec.Modifies {
		switch {
		case m.All:
			fc.noteWriteAll()
			fc.havocComps(st, nil, true)
		case m.Ghost != "":
			k := "G|" + m.Ghost
			if s, ok := fc.comps[k]; ok {
				fc.noteWrite(k)
				st.heap[k] = fc.fresh("H_"+mangle(k), s)
			}
		case m.Contents:
			env.cur = old
			v := env.evalSafe(m.E)
			if v == nil {
				fc.eng.stale(spec, Clause{Text: m.Text, Src: spec.Src}, fmt.Errorf("cannot evaluate modifies target"))
				continue
			}
			sl, ok := types.Unalias(v.typ).Underlying().(*types.Slice)
			if !ok {
				fc.eng.stale(spec, Clause{Text: m.Text, Src: spec.Src}, fmt.Errorf("modifies x[..] needs a slice"))
				continue
			}
			if m.Cap {
				// widen the window to the capacity
				w := SV{t: mkSlice(sarr(v.t), soff(v.t), scap(v.t), scap(v.t)), typ: v.typ}
				fr.havocSliceContents(st, old, w, sl.Elem(), g)
			} else {
				fr.havocSliceContents(st, old, *v, sl.Elem(), g)
			}
		default:
			env.cur = old
			a, t, ok := env.evalAddrSafe(m.E)
			if !ok {
				fc.eng.stale(spec, Clause{Text: m.Text, Src: spec.Src}, fmt.Errorf("modifies target is not an lvalue"))
				continue
			}
			fc.havocAt(st, g, a, t)
		}
	}
	env.cur = st
	env.old = old
	if !spec.Pure {
		// the callee may allocate: its results may point to objects newer than the caller's watermark
		fc.bumpWatermark(st)
	}
	// results
	var res []SV
	if spec.Fresh && sig.Results().Len() >= 1 {
		for i := 0; i < sig.Results().Len(); i++ {
			t := sig.Results().At(i).Type()
			if i == 0 {
				if _, isPtr := types.Unalias(t).Underlying().(*types.Pointer); isPtr {
					p := fc.alloc(st)
					res = append(res, SV{t: fc.define(fr.prefix+"fr", "Ptr", p), typ: t})
					continue
				}
			}
			v := fc.fresh(fmt.Sprintf("%sc_r%d", fr.prefix, i), fc.tc.sortOf(t))
			res = append(res, SV{t: v, typ: t})
		}
	} else {
		res = fr.resultSVs(sig, fr.prefix+"c", st, g)
	}
	fr.assumeWF(res, st, g)
	for i, r := range res {
		env.vars[resultName(sig, i)] = r
		env.vars[fmt.Sprintf("result%d", i)] = r
		if i == len(res)-1 && isErrorType(r.typ) {
			env.vars["err"] = r
		}
	}
	if len(res) == 1 {
		env.vars["result"] = res[0]
	}
	for _, cl := range spec.Ensures {
		t, err := env.evalBool(cl.E)
		if err != nil {
			fc.eng.stale(spec, cl, err)
			continue
		}
		fc.assume(g, t)
	}
	if spec.Pure && len(res) == 1 {
		valueLike := true
		var sorts, ts []string
		for _, a := range args {
			s := fc.tc.sortOfSV(a)
			if s == "Ptr" || s == "Slice" || s == "Iface" {
				valueLike = false
			}
			sorts = append(sorts, s)
			ts = append(ts, a.t)
		}
		if valueLike {
			name := "pf_" + mangle(key)
			fc.eng.declareUF(fc, name, sorts, fc.tc.sortOf(res[0].typ))
			fc.assume(g, eq(res[0].t, app(name, ts...)))
		}
	}
	return res
}

func (e *SpecEnv) evalSafe(x Expr) (sv *SV) {
	defer func() {
		if r := recover(); r != nil {
			if _, ok := r.(specErr); ok {
				sv = nil
				return
			}
			panic(r)
		}
	}()
	v := e.eval(x)
	return &v
}

func (e *SpecEnv) evalAddrSafe(x Expr) (a string, t types.Type, ok bool) {
	defer func() {
		if r := recover(); r != nil {
			if _, isS := r.(specErr); isS {
				ok = false
				return
			}
			panic(r)
		}
	}()
	return e.evalAddr(x)
}

// havocSliceContents replaces the window [off, off+len) of the slice's block with unknown values.
func (fr *Frame) havocSliceContents(st, old *State, s SV, et types.Type, g string) {
	fc := fr.fc
	if !isLeaf(et) {
		if a, ok := isArrayT(et); ok && isLeaf(a.Elem()) {
			// slice of arrays: havoc the blocks of the elements
			k, srt := fc.bKey(a.Elem())
			h := fc.fresh("H_"+mangle(k), srt)
			prev := fc.comp(st, k, srt)
			fc.emit(fmt.Sprintf("(assert (forall ((p Ptr)) (! (=> (not (and ((_ is Elem) p) (= (epar p) %s) (<= %s (eix p)) (< (eix p) (+ %s %s)))) (= (select %s p) (select %s p))) :pattern ((select %s p)))))",
				sarr(s.t), soff(s.t), soff(s.t), slen(s.t), h, prev, h))
			fc.noteWrite(k)
			st.heap[k] = h
			return
		}
		fc.unsupported("modifies contents of slice of " + et.String())
		return
	}
	k, srt := fc.bKey(et)
	blkOld := app("select", fc.comp(st, k, srt), sarr(s.t))
	nb := fc.fresh("blk", "(Array Int "+fc.tc.sortOf(et)+")")
	fc.emit(fmt.Sprintf("(assert (forall ((j Int)) (! (=> (or (< j %s) (>= j (+ %s %s))) (= (select %s j) (select %s j))) :pattern ((select %s j)))))",
		soff(s.t), soff(s.t), slen(s.t), nb, blkOld, nb))
	if lo, hi, ok := rangeOf(et); ok {
		fc.emit(fmt.Sprintf("(assert (forall ((j Int)) (! (and (<= %s (select %s j)) (< (select %s j) %s)) :pattern ((select %s j)))))", bignum(lo), nb, nb, bignum(hi), nb))
	}
	fc.setComp(st, k, srt, app("store", fc.comp(st, k, srt), sarr(s.t), nb))
}

func (fr *Frame) builtin(in ssa.Instruction, b *ssa.Builtin, c *ssa.CallCommon, st *State, g string) []SV {
	fc := fr.fc
	tc := fc.tc
	pos := in.Pos()
	var args []SV
	for _, a := range c.Args {
		args = append(args, fr.val(a))
	}
	intT := types.Typ[types.Int]
	switch b.Name() {
	case "len", "cap":
		a := args[0]
		switch u := c.Args[0].Type().Underlying().(type) {
		case *types.Slice:
			if b.Name() == "len" {
				return []SV{{t: slen(a.t), typ: intT}}
			}
			return []SV{{t: scap(a.t), typ: intT}}
		case *types.Basic:
			return []SV{{t: app("strlen", a.t), typ: intT}}
		case *types.Array:
			return []SV{{t: num(u.Len()), typ: intT}}
		case *types.Pointer:
			if arr, ok := isArrayT(u.Elem()); ok {
				return []SV{{t: num(arr.Len()), typ: intT}}
			}
		case *types.Map:
			l := fc.define(fr.prefix+"maplen", "Int", ite(eq(a.t, nilPtr), "0", app("select", fc.comp(st, "ML", "(Array Ptr Int)"), a.t)))
			fc.assume("true", app(">=", l, "0"))
			return []SV{{t: l, typ: intT}}
		}
		fc.unsupported("len of " + c.Args[0].Type().String())
		v := fc.fresh("len", "Int")
		return []SV{{t: v, typ: intT}}
	case "append":
		return []SV{fr.appendBuiltin(c, args, st, g, pos)}
	case "copy":
		return []SV{fr.copyBuiltin(c, args, st, g)}
	case "delete":
		m, k := args[0], args[1]
		mt := c.Args[0].Type().Underlying().(*types.Map)
		mh, _ := fc.mapComps(mt)
		hh := fc.comp(st, mh, fc.comps[mh])
		ml := fc.comp(st, "ML", "(Array Ptr Int)")
		had := and(not(eq(m.t, nilPtr)), app("select", app("select", hh, m.t), k.t))
		fc.setComp(st, "ML", "(Array Ptr Int)", ite(had, app("store", ml, m.t, app("-", app("select", ml, m.t), "1")), ml))
		fc.setComp(st, mh, fc.comps[mh], ite(eq(m.t, nilPtr), hh, app("store", hh, m.t, app("store", app("select", hh, m.t), k.t, "false"))))
		return nil
	case "min", "max":
		cur := args[0].t
		for _, a := range args[1:] {
			cur = app("i"+b.Name(), cur, a.t)
		}
		return []SV{{t: cur, typ: args[0].typ}}
	case "print", "println":
		return nil
	case "clear":
		fc.unsupported("clear")
		return nil
	case "recover":
		fc.unsupported("recover")
		return []SV{{t: tc.zero(types.NewInterfaceType(nil, nil)), typ: types.NewInterfaceType(nil, nil)}}
	}
	fc.unsupported("builtin " + b.Name())
	if in, ok := in.(ssa.Value); ok && in.Type() != nil {
		v := fc.fresh("bi", tc.sortOf(in.Type()))
		return []SV{{t: v, typ: in.Type()}}
	}
	return nil
}

func (fr *Frame) appendBuiltin(c *ssa.CallCommon, args []SV, st *State, g string, pos token.Pos) SV {
	fc := fr.fc
	tc := fc.tc
	s := args[0]
	st0 := types.Unalias(c.Args[0].Type()).Underlying()
	sl, ok := st0.(*types.Slice)
	if !ok {
		fc.unsupported("append to " + c.Args[0].Type().String())
		return SV{t: fc.fresh("app", "Slice"), typ: c.Args[0].Type()}
	}
	et := sl.Elem()
	// appended elements
	var addLen string
	var more SV
	if len(args) > 1 {
		more = args[1]
		if tc.sortOf(more.typ) == "Str" {
			addLen = app("strlen", more.t)
		} else {
			addLen = slen(more.t)
		}
	} else {
		addLen = "0"
	}
	newLen := fc.define(fr.prefix+"applen", "Int", plus(slen(s.t), addLen))
	// result: either in place (capacity suffices) or a fresh block; Go decides by capacity
	inPlace := app("<=", newLen, scap(s.t))
	p := fc.alloc(st)
	np := fc.define(fr.prefix+"apparr", "Ptr", p)
	ncap := fc.fresh(fr.prefix+"appcap", "Int")
	fc.assume("true", app(">=", ncap, newLen))
	res := fc.define(fr.prefix+"app", "Slice", ite(inPlace, mkSlice(sarr(s.t), soff(s.t), newLen, scap(s.t)), mkSlice(np, "0", newLen, ncap)))
	if !isLeaf(et) {
		if a, ok := isArrayT(et); ok && isLeaf(a.Elem()) {
			// slice of arrays: element i of the result block
			k, srt := fc.bKey(a.Elem())
			prev := fc.comp(st, k, srt)
			h := fc.fresh("H_"+mangle(k), srt)
			// old elements copied when reallocated; appended ones written at [len, newLen)
			if tc.sortOf(more.typ) == "Slice" {
				fc.emit(fmt.Sprintf("(assert (forall ((p Ptr)) (! (= (select %[1]s p) (ite (and ((_ is Elem) p) (= (epar p) (sarr %[2]s)) (<= (soff %[2]s) (eix p)) (< (eix p) (+ (soff %[2]s) %[3]s))) (ite (< (- (eix p) (soff %[2]s)) %[4]s) (select %[5]s (Elem %[6]s (+ %[7]s (- (eix p) (soff %[2]s))))) (select %[5]s (Elem %[8]s (+ %[9]s (- (- (eix p) (soff %[2]s)) %[4]s))))) (select %[5]s p))) :pattern ((select %[1]s p)))))",
					h, res, newLen, slen(s.t), prev, sarr(s.t), soff(s.t), sarr(more.t), soff(more.t)))
			}
			fc.noteWrite(k)
			st.heap[k] = h
			return SV{t: res, typ: c.Args[0].Type()}
		}
		fc.unsupported("append to slice of " + et.String())
		return SV{t: res, typ: c.Args[0].Type()}
	}
	k, srt := fc.bKey(et)
	heap := fc.comp(st, k, srt)
	oldBlk := app("select", heap, sarr(s.t))
	es := tc.sortOf(et)
	// common single-element case: append(s, x) lowers to a 1-element slice of a fresh array
	nb := fc.fresh(fr.prefix+"appblk", "(Array Int "+es+")")
	ro := soff(res)
	// contents (relative index j): j < len(s): nb[ro+j] = old[soff+j]; len <= j < newLen: nb[ro+j] = more[j-len]; in place: outside window unchanged
	if len(args) > 1 {
		// k = j - len(s) ranges over the appended elements
		var moreAt string
		if tc.sortOf(more.typ) == "Str" {
			moreAt = fmt.Sprintf("(strat %s k)", more.t)
		} else {
			moreAt = fmt.Sprintf("(select (select %s %s) %s)", heap, sarr(more.t), idx(soff(more.t), "k"))
		}
		fc.emit(fmt.Sprintf("(assert (forall ((k Int)) (! (=> (and (<= 0 k) (< k %s)) (= (select %s %s) %s)) :pattern ((select %s %s)))))",
			addLen, nb, idx(ro, "(+ "+slen(s.t)+" k)"), moreAt, nb, idx(ro, "(+ "+slen(s.t)+" k)")))
		// the common one-element case gets a ground instance
		fc.emit(fmt.Sprintf("(assert (=> (= %s 1) (= (select %s %s) %s)))", addLen, nb, idx(ro, slen(s.t)), strings.ReplaceAll(moreAt, " k)", " 0)")))
	}
	fc.emit(fmt.Sprintf("(assert (forall ((j Int)) (! (=> (and (<= 0 j) (< j %s)) (= (select %s %s) (select %s %s))) :pattern ((select %s %s)))))",
		slen(s.t), nb, idx(ro, "j"), oldBlk, idx(soff(s.t), "j"), nb, idx(ro, "j")))
	fc.emit(fmt.Sprintf("(assert (=> %s (forall ((i Int)) (! (=> (or (< i %s) (>= i (+ %s %s))) (= (select %s i) (select %s i))) :pattern ((select %s i))))))",
		inPlace, soff(s.t), soff(s.t), newLen, nb, oldBlk, nb))
	fc.setComp(st, k, srt, app("store", heap, sarr(res), nb))
	return SV{t: res, typ: c.Args[0].Type()}
}

func (fr *Frame) copyBuiltin(c *ssa.CallCommon, args []SV, st *State, g string) SV {
	fc := fr.fc
	tc := fc.tc
	dst, src := args[0], args[1]
	sl := types.Unalias(c.Args[0].Type()).Underlying().(*types.Slice)
	et := sl.Elem()
	var srcLen string
	if tc.sortOf(src.typ) == "Str" {
		srcLen = app("strlen", src.t)
	} else {
		srcLen = slen(src.t)
	}
	n := fc.define(fr.prefix+"copyn", "Int", app("imin", slen(dst.t), srcLen))
	if !isLeaf(et) {
		fc.unsupported("copy of slice of " + et.String())
		return SV{t: n, typ: types.Typ[types.Int]}
	}
	k, srt := fc.bKey(et)
	heap := fc.comp(st, k, srt)
	oldBlk := app("select", heap, sarr(dst.t))
	nb := fc.fresh(fr.prefix+"copyblk", "(Array Int "+tc.sortOf(et)+")")
	var srcAt string
	if tc.sortOf(src.typ) == "Str" {
		srcAt = fmt.Sprintf("(strat %s j)", src.t)
	} else {
		srcAt = fmt.Sprintf("(select (select %s %s) %s)", heap, sarr(src.t), idx(soff(src.t), "j"))
	}
	fc.emit(fmt.Sprintf("(assert (forall ((j Int)) (! (=> (and (<= 0 j) (< j %s)) (= (select %s %s) %s)) :pattern ((select %s %s)))))",
		n, nb, idx(soff(dst.t), "j"), srcAt, nb, idx(soff(dst.t), "j")))
	fc.emit(fmt.Sprintf("(assert (forall ((i Int)) (! (=> (or (< i %s) (>= i (+ %s %s))) (= (select %s i) (select %s i))) :pattern ((select %s i)))))",
		soff(dst.t), soff(dst.t), n, nb, oldBlk, nb))
	fc.setComp(st, k, srt, app("store", heap, sarr(dst.t), nb))
	return SV{t: n, typ: types.Typ[types.Int]}
}

var _ = strings.Contains

// sortSliceModel: assumed semantics of sort.Slice(x, less) (T-SORT): the window is permuted (bijection witness)
// and ordered by the closure's definitional contract.
func (fr *Frame) sortSliceModel(c *ssa.CallCommon, st *State, g string, pos token.Pos) bool {
	fc := fr.fc
	mi, ok := c.Args[0].(*ssa.MakeInterface)
	if !ok {
		return false
	}
	sl, ok := types.Unalias(mi.X.Type()).Underlying().(*types.Slice)
	if !ok || !isLeaf(sl.Elem()) {
		return false
	}
	s := fr.val(mi.X)
	lessV := fr.val(c.Args[1])
	rec := fc.eng.closures[lessV.t]
	if rec == nil {
		return false
	}
	fc.assumes["assumed contract: sort.Slice permutes the slice and orders it by less (T-SORT)"] = true
	k, srt := fc.bKey(sl.Elem())
	heap := fc.comp(st, k, srt)
	oldBlk := fc.define(fr.prefix+"sortold", "(Array Int "+fc.tc.sortOf(sl.Elem())+")", app("select", heap, sarr(s.t)))
	nb := fc.fresh(fr.prefix+"sortblk", "(Array Int "+fc.tc.sortOf(sl.Elem())+")")
	fc.nfresh++
	perm, pinv := fmt.Sprintf("perm!%d", fc.nfresh), fmt.Sprintf("pinv!%d", fc.nfresh)
	fc.emit(fmt.Sprintf("(declare-fun %s (Int) Int)", perm))
	fc.emit(fmt.Sprintf("(declare-fun %s (Int) Int)", pinv))
	off, n := soff(s.t), slen(s.t)
	inr := func(v string) string { return fmt.Sprintf("(and (<= 0 %s) (< %s %s))", v, v, n) }
	at := func(blk, j string) string { return app("select", blk, idx(off, j)) }
	fc.emit(fmt.Sprintf("(assert (forall ((a Int)) (! (=> %s (and %s (= %s %s) (= (%s (%s a)) a))) :pattern (%s) :pattern ((%s a)))))",
		inr("a"), inr("("+perm+" a)"), at(nb, "a"), at(oldBlk, "("+perm+" a)"), pinv, perm, at(nb, "a"), perm))
	fc.emit(fmt.Sprintf("(assert (forall ((b Int)) (! (=> %s (and %s (= (%s (%s b)) b) (= %s %s))) :pattern ((%s b)) :pattern (%s))))",
		inr("b"), inr("("+pinv+" b)"), perm, pinv, at(nb, "("+pinv+" b)"), at(oldBlk, "b"), pinv, at(oldBlk, "b")))
	fc.emit(fmt.Sprintf("(assert (forall ((a Int)) (! (=> (not (and (<= %s a) (< a (+ %s %s)))) (= (select %s a) (select %s a))) :pattern ((select %s a)))))", off, off, n, nb, oldBlk, nb))
	// injectivity stated directly (follows from the inverse; spares the solver a step)
	fc.emit(fmt.Sprintf("(assert (forall ((a Int) (b Int)) (! (=> (and %s %s (not (= a b))) (not (= (%s a) (%s b)))) :pattern ((%s a) (%s b)))))", inr("a"), inr("b"), perm, perm, perm, perm))
	fc.setComp(st, k, srt, app("store", heap, sarr(s.t), nb))
	// ordering through the closure's definitional contract
	spec := fc.eng.specFor(rec.fn)
	if spec == nil {
		fc.warn("sort.Slice comparator %s has no contract: order unknown", funcKey(rec.fn))
		return true
	}
	fc.calleesUsed[funcKey(rec.fn)] = true
	sub := fc.newFrame(rec.fn, "", fr.depth+1, false)
	sub.bindings = rec.bindings
	sub.params = []SV{{t: "qi", typ: types.Typ[types.Int]}, {t: "qj", typ: types.Typ[types.Int]}}
	env := sub.specEnv(st, st)
	for _, cl := range spec.Ensures {
		b, ok := cl.E.(*EBinary)
		if !ok || b.Op != "<==>" {
			continue
		}
		if id, ok := b.X.(*EIdent); !ok || id.Name != "result" {
			continue
		}
		t, err := env.evalBool(b.Y)
		if err != nil {
			fc.eng.stale(spec, cl, err)
			continue
		}
		// less(qi,qj) == t ; sorted: forall i<j in window (relative indices): !less(j,i)
		fc.nfresh++
		lf := fmt.Sprintf("less!%d", fc.nfresh)
		fc.emit(fmt.Sprintf("(define-fun %s ((qi Int) (qj Int)) Bool %s)", lf, t))
		fc.emit(fmt.Sprintf("(assert (forall ((i Int) (j Int)) (=> (and (<= 0 i) (< i j) (< j %s)) (not (%s j i)))))", n, lf))
	}
	return true
}
