package main

import (
	"fmt"
	"go/token"
	"go/types"
	"strings"

	"golang.org/x/tools/go/ssa"
)

type closureRec struct {
	fn       *ssa.Function
	bindings []SV
}

func (fr *Frame) resultSVs(sig *types.Signature, prefix string, st *State, g string) []SV {
	fc := fr.fc
	var res []SV
	for i := 0; i < sig.Results().Len(); i++ {
		t := sig.Results().At(i).Type()
		v := fc.fresh(fmt.Sprintf("%s_r%d", prefix, i), fc.tc.sortOf(t))
		res = append(res, SV{t: v, typ: t})
	}
	return res
}

func (fr *Frame) assumeWF(res []SV, st *State, g string) {
	for _, r := range res {
		fr.fc.assume(g, fr.fc.tc.wf(r.t, r.typ, fr.fc.watermark(st)))
	}
}

func (fr *Frame) call(in ssa.Instruction, c *ssa.CallCommon, st *State, g string) []SV {
	fc := fr.fc
	pos := in.Pos()
	if b, ok := c.Value.(*ssa.Builtin); ok {
		return fr.builtin(in, b, c, st, g)
	}
	var args []SV
	var sig *types.Signature
	var key string
	var callee *ssa.Function
	var bindings []SV
	var crec *closureRec // set when the callee is a closure with known bindings (its contract may mention captured variables)
	if c.IsInvoke() {
		recv := fr.val(c.Value)
		fr.safe("nil", g, not(eq(app("itag", recv.t), "0")), pos, "method call on nil interface")
		args = append(args, recv)
		sig = c.Method.Type().(*types.Signature)
		key = "(" + shortType(types.TypeString(types.Unalias(c.Value.Type()), nil)) + ")." + c.Method.Name()
		if _, ok := fc.eng.contracts.Funcs[key]; !ok {
			// try the interface in which the method is declared (embedded interfaces)
			if recvT := sig.Recv(); recvT != nil {
				k2 := "(" + shortType(types.TypeString(types.Unalias(recvT.Type()), nil)) + ")." + c.Method.Name()
				if _, ok := fc.eng.contracts.Funcs[k2]; ok {
					key = k2
				}
			}
		}
	} else if callee = c.StaticCallee(); callee != nil {
		sig = callee.Signature
		key = funcKey(callee)
		if mc, ok := c.Value.(*ssa.MakeClosure); ok {
			for _, b := range mc.Bindings {
				bindings = append(bindings, fr.val(b))
			}
			crec = &closureRec{fn: callee, bindings: bindings}
		}
	} else {
		// dynamic call through a function value
		fv := fr.val(c.Value)
		if rec, ok := fc.eng.closures[fv.t]; ok {
			callee, bindings = rec.fn, rec.bindings
			crec = rec
			sig = callee.Signature
			key = funcKey(callee)
		} else {
			sig = c.Value.Type().Underlying().(*types.Signature)
			fc.warn("dynamic call through unknown function value at %s: havoc everything", fc.eng.pos(pos))
			fc.noteWriteAll()
			fc.havocComps(st, nil, true)
			res := fr.resultSVs(sig, fr.prefix+"dyn", st, g)
			fr.assumeWF(res, st, g)
			return res
		}
	}
	for _, a := range c.Args {
		args = append(args, fr.val(a))
	}
	spec := fc.eng.contracts.Funcs[key]
	fc.calleesUsed[key] = true
	if key == "sort.Slice" && fr.sortSliceModel(c, st, g, pos) {
		return nil
	}
	if key == "slices.SortFunc" && fr.sortFuncModel(c, st, g, pos) { // ext_c07.go
		return nil
	}
	if key == "math.Abs" && spec == nil && len(args) == 1 {
		// trusted model: |x| on the reals (finite float64 values are reals; Abs is exact)
		fc.assumes["trusted model: math.Abs(x) == |x| (exact on finite float64)"] = true
		return []SV{{t: fc.define(fr.prefix+"fabs", "Real", ite(app(">=", args[0].t, "0.0"), args[0].t, app("-", args[0].t))), typ: sig.Results().At(0).Type()}}
	}
	if res, ok := fr.mathPowConst(key, c); ok && spec == nil { // ext_float.go: math.Pow of constants
		return res
	}
	if key == badgerPkgPath+".DB).Update" || key == badgerPkgPath+".DB).View" {
		if res, ok := fr.badgerRunModel(key, c, st, g, pos); ok {
			return res
		}
	}
	if spec != nil && !(spec.Inline && callee != nil && len(callee.Blocks) > 0) {
		res := fr.applySpecClosure(spec, key, sig, args, st, g, pos, crec)
		if _, used := fc.ufs["kvval"]; used && key == "bytes.Equal" && len(args) == 2 && len(res) == 1 {
			// T-KV: a value id is the identity of the byte string, so bytes.Equal(a, b) <==> kvval(a) == kvval(b)
			// (ground instance of extensionality + injectivity; only in functions whose specs mention kvval)
			k, srt := fc.bKey(types.Typ[types.Uint8])
			h := fc.comp(st, k, srt)
			id := func(v SV) string { return app("kvval", app("select", h, sarr(v.t)), soff(v.t), slen(v.t)) }
			fc.assume(g, eq(res[0].t, eq(id(args[0]), id(args[1]))))
		}
		fr.seqEqualFact(key, args, res, st, g) // ext_seqequal.go
		return res
	}
	if callee != nil && len(callee.Blocks) > 0 && fc.eng.isRepoFunc(callee) {
		if fc.canInline(fr, callee, spec) {
			return fr.inline(callee, args, bindings, st, g, pos)
		}
		// default summary: inferred frame, unconstrained well-typed results
		ws := fc.eng.writeSet(callee)
		fc.assumes["default-summary: "+key+" (inferred frame, no postcondition)"] = true
		if ws.all {
			fc.noteWriteAll()
			fc.havocComps(st, nil, true)
		} else {
			keys := map[string]bool{}
			for _, t := range ws.types {
				fc.compsOfType(t, keys)
			}
			for _, m := range ws.maps {
				mh, mv := fc.mapComps(m)
				keys[mh], keys[mv], keys["ML"] = true, true, true
			}
			keys["W"] = true
			for k := range keys {
				fc.noteWrite(k)
			}
			fc.havocComps(st, keys, false)
		}
		res := fr.resultSVs(sig, fr.prefix+"c", st, g)
		fr.assumeWF(res, st, g)
		return res
	}
	// external function without a trusted contract
	if fc.eng.knownTotalPure(key) {
		fc.bumpWatermark(st)
		res := fr.resultSVs(sig, fr.prefix+"x", st, g)
		fr.assumeWF(res, st, g)
		return res
	}
	if strings.HasSuffix(key, ".init") && len(c.Args) == 0 {
		// initializer of an imported package, called at the start of a package initializer: havoc everything, one summary line
		fc.assumes["package initializers of dependencies: unknown effects (everything havocked)"] = true
	} else {
		fc.warn("call to %s without contract at %s: havoc everything", key, fc.eng.pos(pos))
		fc.assumes["unspecified external call "+key+" (havoc)"] = true
	}
	fc.noteWriteAll()
	fc.havocComps(st, nil, true)
	res := fr.resultSVs(sig, fr.prefix+"x", st, g)
	fr.assumeWF(res, st, g)
	return res
}

func (fc *FnCtx) canInline(fr *Frame, callee *ssa.Function, spec *FuncSpec) bool {
	if spec != nil && spec.Inline {
		return fr.depth < 8
	}
	if callee.Synthetic == "package initializer" {
		return false // another package's initializer (called from a package initializer under contract): summarised, never inlined
	}
	if fr.depth >= 4 {
		return false
	}
	for f := fr; f != nil; f = f.callerFrame {
		if f.fn == callee {
			return false
		}
	}
	n := 0
	for _, b := range callee.Blocks {
		n += len(b.Instrs)
		for _, in := range b.Instrs {
			switch in.(type) {
			case *ssa.Go, *ssa.Select, *ssa.Send, *ssa.MakeChan:
				return false
			}
		}
		for _, s := range b.Succs {
			if isBackEdge(b, s) {
				return false // loops need invariants: summarise instead
			}
		}
	}
	return n <= 60
}

func (fr *Frame) inline(callee *ssa.Function, args []SV, bindings []SV, st *State, g string, pos token.Pos) []SV {
	fc := fr.fc
	fc.inlineN++
	sub := fc.newFrame(callee, fmt.Sprintf("i%d_", fc.inlineN), fr.depth+1, false)
	sub.spec = nil
	sub.bindings = bindings
	sub.callerFrame = fr
	saved := fc.curFrame
	sub.walk(st, args, g)
	fc.curFrame = saved
	// merge returns
	sig := callee.Signature
	if len(sub.rets) == 0 {
		// never returns (always panics)
		fc.assume(g, "false")
		res := fr.resultSVs(sig, fr.prefix+"nr", st, g)
		return res
	}
	// state merge
	var edges []inEdge
	tmpOut := map[*ssa.BasicBlock]*State{}
	for i, r := range sub.rets {
		b := &ssa.BasicBlock{Index: 100000 + i}
		tmpOut[b] = r.state
		edges = append(edges, inEdge{pred: b, guard: r.guard})
	}
	savedOut := fr.out
	fr.out = tmpOut
	merged := fr.mergeStates(edges)
	fr.out = savedOut
	st.heap = merged.heap
	var res []SV
	for i := 0; i < sig.Results().Len(); i++ {
		t := sig.Results().At(i).Type()
		cur := ""
		for j := len(sub.rets) - 1; j >= 0; j-- {
			x := sub.rets[j].results[i].t
			if cur == "" {
				cur = x
			} else {
				cur = ite(sub.rets[j].guard, x, cur)
			}
		}
		res = append(res, SV{t: fc.define(sub.prefix+"ret", fc.tc.sortOf(t), cur), typ: t})
	}
	// after the call we are on a path where the callee returned
	var gs []string
	for _, r := range sub.rets {
		gs = append(gs, r.guard)
	}
	fc.assume(g, or(gs...))
	return res
}

// applySpec applies a callee contract at a call site.
func (fr *Frame) applySpec(spec *FuncSpec, key string, sig *types.Signature, args []SV, st *State, g string, pos token.Pos) []SV {
	return fr.applySpecClosure(spec, key, sig, args, st, g, pos, nil)
}

// applySpecClosure: as applySpec; when the callee is a closure whose bindings are known (rec != nil) the captured
// variables are visible by name in its contract (captured by reference: the value in the state the clause is evaluated in).
func (fr *Frame) applySpecClosure(spec *FuncSpec, key string, sig *types.Signature, args []SV, st *State, g string, pos token.Pos, rec *closureRec) []SV {
	fc := fr.fc
	if spec.Assume {
		fc.assumes["assumed contract: "+key+" ("+spec.Src+")"] = true
	}
	env := &SpecEnv{fc: fc, vars: map[string]SV{}, cur: st, old: st, pkg: fc.eng.pkgOfSpec(spec)}
	names := paramNames(spec, sig)
	for i, a := range args {
		if i < len(names) {
			env.vars[names[i]] = a
		}
	}
	bindFree := func(cur *State) {
		if rec == nil {
			return
		}
		for i, fv := range rec.fn.FreeVars {
			if i < len(rec.bindings) {
				if pt, ok := fv.Type().Underlying().(*types.Pointer); ok {
					env.vars[fv.Name()] = SV{t: fc.load(cur, rec.bindings[i].t, pt.Elem()), typ: pt.Elem()}
					if env.fvAddr == nil {
						env.fvAddr = map[string]SV{}
					}
					env.fvAddr[fv.Name()] = SV{t: rec.bindings[i].t, typ: pt.Elem()}
				}
			}
		}
	}
	bindFree(st)
	for i, cl := range spec.Requires {
		t, err := env.evalBool(cl.E)
		if err != nil {
			fc.eng.stale(spec, cl, err)
			continue
		}
		label := cl.Label
		if label == "" {
			label = fmt.Sprint(i)
		}
		if fr.trustsPre(key) || fr.trustsPreLabel(key, cl.Label) { // trustsPreLabel: `trustpre callee[label]` (ext_c07.go)
			fc.assumes["precondition of "+key+" assumed at its call sites in "+funcKey(fr.fn)+" (trustpre): "+cl.Text] = true
		} else if preProvedByOtherCheck(cl, fc) { // ext_propfilter.go
			fc.assumes["precondition of "+key+" at its call sites in "+funcKey(fc.root)+" is an obligation of check "+strings.Join(cl.Props, ",")+", not of this run: "+cl.Text] = true
		} else {
			fc.oblige(fr, "pre", key+":"+label, g, t, pos, cl.Text, fr.props())
		}
		if fr.trustsPreQuiet(key) {
			continue // `trustpre quiet:` — the (trusted) precondition is not added to this function's context
		}
		fc.assume(g, t)
	}
	for i, cl := range spec.PanicsWhen {
		t, err := env.evalBool(cl.E)
		if err != nil {
			fc.eng.stale(spec, cl, err)
			continue
		}
		if fr.trustsPre(key) {
			fc.assumes["no-panic condition of "+key+" assumed at its call sites in "+funcKey(fr.fn)+" (trustpre): !("+cl.Text+")"] = true
		} else if ob, prop := fr.panicPropagation(t); prop {
			// caller documents its own panics: the callee's panic must fall under them (ext_panicprop.go)
			fc.oblige(fr, "panic-spec", fmt.Sprintf("%s:%d", key, i), g, ob, pos, "callee panics when "+cl.Text+": only under the caller's documented panic condition", fr.props())
		} else if np := fr.rootNoPanic(); np != "" {
			// ext_nopanic.go: the caller propagates the callee's documented panic, except under its own `nopanic when` condition
			fc.oblige(fr, "nopanic", fmt.Sprintf("%s:%d", key, i), g, implies(np, not(t)), pos, "under the `nopanic when` condition the callee does not panic: !("+cl.Text+")", fr.props())
		} else {
			fc.oblige(fr, "pre", fmt.Sprintf("%s:nopanic%d", key, i), g, not(t), pos, "callee panics when "+cl.Text, fr.props())
		}
		fc.assume(g, not(t))
	}
	fr.calleeNoPanic(spec, key, env, g, pos) // ext_nopanic.go
	old := st.clone()
	// frame
	if !spec.HasMod && !spec.Trusted && !spec.Assume {
		// verified repo function without modifies clause: inferred syntactic frame
		if callee := fc.eng.funcByKey[key]; callee != nil {
			ws := fc.eng.writeSet(callee)
			if ws.all {
				fc.noteWriteAll()
				fc.havocComps(st, nil, true)
			} else {
				keys := map[string]bool{}
				for _, t := range ws.types {
					fc.compsOfType(t, keys)
				}
				for _, m := range ws.maps {
					mh, mv := fc.mapComps(m)
					keys[mh], keys[mv], keys["ML"] = true, true, true
				}
				if ws.alloc {
					keys["W"] = true
				}
				for k := range keys {
					fc.noteWrite(k)
				}
				fc.havocComps(st, keys, false)
			}
		}
	}
	for _, m := range spec.Modifies {
		switch {
		case m.All:
			fc.noteWriteAll()
			fc.havocComps(st, nil, true)
		case m.Ghost != "":
			k := "G|" + m.Ghost
			fc.registerComp(k, ghostSort(m.Ghost))
			if s, ok := fc.comps[k]; ok {
				fc.noteWrite(k)
				st.heap[k] = fc.fresh("H_"+mangle(k), s)
			}
		case m.Contents:
			env.cur = old
			v := env.evalSafe(m.E)
			if v == nil {
				fc.eng.stale(spec, Clause{Text: m.Text, Src: spec.Src}, fmt.Errorf("cannot evaluate modifies target"))
				continue
			}
			if mt, isMap := types.Unalias(v.typ).Underlying().(*types.Map); isMap {
				// modifies m[..] on a map (C05): the entries and the length of this one map become unknown, every other map is unchanged
				mh, mv := fc.mapComps(mt)
				hh, vv := fc.comp(st, mh, fc.comps[mh]), fc.comp(st, mv, fc.comps[mv])
				ml := fc.comp(st, "ML", "(Array Ptr Int)")
				hs, vs := fc.comps[mh], fc.comps[mv]
				nh := fc.fresh("mhav", hs[len("(Array Ptr "):len(hs)-1])
				nv := fc.fresh("mvav", vs[len("(Array Ptr "):len(vs)-1])
				nl := fc.fresh("mlav", "Int")
				fc.assume("true", app(">=", nl, "0"))
				fc.setComp(st, mh, hs, app("store", hh, v.t, nh))
				fc.setComp(st, mv, vs, app("store", vv, v.t, nv))
				fc.setComp(st, "ML", "(Array Ptr Int)", app("store", ml, v.t, nl))
				if m.DelOnly {
					// m[-]: the new key set is a subset of the old one, surviving entries keep their values, the length does not grow
					fc.assume(g, deleteOnlyCond(fc.tc.sortOf(mt.Key()), fc.tc.wf("dk", mt.Key(), ""), app("select", hh, v.t), app("select", vv, v.t), nh, nv, app("select", ml, v.t), nl))
				}
				continue
			}
			sl, ok := types.Unalias(v.typ).Underlying().(*types.Slice)
			if !ok {
				fc.eng.stale(spec, Clause{Text: m.Text, Src: spec.Src}, fmt.Errorf("modifies x[..] needs a slice or a map"))
				continue
			}
			if m.Whole {
				if !isLeaf(sl.Elem()) {
					fc.eng.stale(spec, Clause{Text: m.Text, Src: spec.Src}, fmt.Errorf("modifies x[*] needs a slice of leaf elements"))
					continue
				}
				// the whole backing array of the slice becomes unknown (well-typed) content
				k, srt := fc.bKey(sl.Elem())
				nb := fc.fresh("blk", "(Array Int "+fc.tc.sortOf(sl.Elem())+")")
				if lo, hi, ok := rangeOf(sl.Elem()); ok {
					fc.emit(fmt.Sprintf("(assert (forall ((j Int)) (! (and (<= %s (select %s j)) (< (select %s j) %s)) :pattern ((select %s j)))))", bignum(lo), nb, nb, bignum(hi), nb))
				}
				fc.setComp(st, k, srt, ite(eq(sarr(v.t), nilPtr), fc.comp(st, k, srt), app("store", fc.comp(st, k, srt), sarr(v.t), nb)))
				continue
			}
			if m.Tail {
				w := SV{t: mkSlice(sarr(v.t), app("+", soff(v.t), slen(v.t)), app("-", scap(v.t), slen(v.t)), app("-", scap(v.t), slen(v.t))), typ: v.typ}
				fr.havocSliceContents(st, old, w, sl.Elem(), g)
			} else if m.Cap {
				// widen the window to the capacity
				w := SV{t: mkSlice(sarr(v.t), soff(v.t), scap(v.t), scap(v.t)), typ: v.typ}
				fr.havocSliceContents(st, old, w, sl.Elem(), g)
			} else {
				fr.havocSliceContents(st, old, *v, sl.Elem(), g)
			}
		default:
			env.cur = old
			a, t, ok := env.evalAddrSafe(m.E)
			if !ok {
				fc.eng.stale(spec, Clause{Text: m.Text, Src: spec.Src}, fmt.Errorf("modifies target is not an lvalue"))
				continue
			}
			// `modifies x.f` with x == nil names no location (the callee cannot reach it): nothing changes then.
			base := a
			for strings.HasPrefix(base, "(Fld ") || strings.HasPrefix(base, "(Elem ") {
				base = splitTop(base)[1]
			}
			if base == a {
				fc.havocAt(st, g, a, t)
			} else {
				before := st.clone()
				fc.havocAt(st, g, a, t)
				isNil := eq(base, nilPtr)
				for k, v := range st.heap {
					if ov, had := before.heap[k]; !had || ov != v {
						if !had {
							ov = compInit(k)
						}
						st.heap[k] = fc.define("H_"+mangle(k), fc.comps[k], ite(isNil, ov, v))
					}
				}
			}
		}
	}
	env.cur = st
	env.old = old
	bindFree(st)
	if !spec.Pure {
		// the callee may allocate: its results may point to objects newer than the caller's watermark
		fc.bumpWatermark(st)
	}
	// results
	var res []SV
	if spec.Fresh && sig.Results().Len() >= 1 {
		for i := 0; i < sig.Results().Len(); i++ {
			t := sig.Results().At(i).Type()
			if i == 0 {
				if _, isPtr := types.Unalias(t).Underlying().(*types.Pointer); isPtr {
					p := fc.alloc(st)
					res = append(res, SV{t: fc.define(fr.prefix+"fr", "Ptr", p), typ: t})
					continue
				}
				if _, isSl := types.Unalias(t).Underlying().(*types.Slice); isSl {
					// `fresh` on a slice result: nil, or a window at offset 0 of a newly allocated block
					p := fc.define(fr.prefix+"frs", "Ptr", fc.alloc(st))
					v := fc.fresh(fmt.Sprintf("%sc_r%d", fr.prefix, i), "Slice")
					fc.assume(g, and(or(eq(sarr(v), p), eq(sarr(v), nilPtr)), eq(soff(v), "0")))
					res = append(res, SV{t: v, typ: t})
					continue
				}
			}
			v := fc.fresh(fmt.Sprintf("%sc_r%d", fr.prefix, i), fc.tc.sortOf(t))
			res = append(res, SV{t: v, typ: t})
		}
	} else {
		res = fr.resultSVs(sig, fr.prefix+"c", st, g)
	}
	fr.assumeWF(res, st, g)
	for i, r := range res {
		env.vars[resultName(sig, i)] = r
		env.vars[fmt.Sprintf("result%d", i)] = r
		if i == len(res)-1 && isErrorType(r.typ) {
			env.vars["err"] = r
		}
	}
	if len(res) == 1 {
		env.vars["result"] = res[0]
	}
	for _, cl := range spec.Ensures {
		if strings.HasPrefix(cl.Label, "local-") && !spec.Assume {
			continue // `ensures [local-...]`: proved against the body, not re-assumed at call sites (keeps the callers' VCs small)
		}
		if fr.ignoresPost(key, cl.Label) {
			continue // `ignorepost` clause of the function under verification
		}
		t, err := env.evalBool(cl.E)
		if err != nil {
			fc.eng.stale(spec, cl, err)
			continue
		}
		fc.assume(g, t)
	}
	for _, cl := range spec.AssumedEns {
		t, err := env.evalBool(cl.E)
		if err != nil {
			fc.eng.stale(spec, cl, err)
			continue
		}
		fc.assumes["assumed postcondition of "+key+": "+cl.Text+" ("+cl.Src+")"] = true
		fc.assume(g, t)
	}
	if spec.Pure && len(res) == 1 {
		valueLike := true
		var sorts, ts []string
		for _, a := range args {
			s := fc.tc.sortOfSV(a)
			if s == "Ptr" || s == "Slice" || s == "Iface" {
				valueLike = false
			}
			sorts = append(sorts, s)
			ts = append(ts, a.t)
		}
		if valueLike {
			name := "pf_" + mangle(key)
			fc.eng.declareUF(fc, name, sorts, fc.tc.sortOf(res[0].typ))
			fc.assume(g, eq(res[0].t, app(name, ts...)))
		} else if t, ok := fc.pureHeapTerm(key, st, args, res[0].typ); ok {
			// pure-heap rule (pureheap.go): the result is the value the spec term `f(args)` denotes in this state
			fc.assume(g, eq(res[0].t, t))
		}
	}
	return res
}

func (e *SpecEnv) evalSafe(x Expr) (sv *SV) {
	defer func() {
		if r := recover(); r != nil {
			if _, ok := r.(specErr); ok {
				sv = nil
				return
			}
			panic(r)
		}
	}()
	v := e.eval(x)
	return &v
}

func (e *SpecEnv) evalAddrSafe(x Expr) (a string, t types.Type, ok bool) {
	defer func() {
		if r := recover(); r != nil {
			if _, isS := r.(specErr); isS {
				ok = false
				return
			}
			panic(r)
		}
	}()
	return e.evalAddr(x)
}

// havocSliceContents replaces the window [off, off+len) of the slice's block with unknown values.
func (fr *Frame) havocSliceContents(st, old *State, s SV, et types.Type, g string) {
	fc := fr.fc
	if !isLeaf(et) {
		if a, ok := isArrayT(et); ok && isLeaf(a.Elem()) {
			// slice of arrays: havoc the blocks of the elements
			k, srt := fc.bKey(a.Elem())
			h := fc.fresh("H_"+mangle(k), srt)
			prev := fc.comp(st, k, srt)
			fc.emit(fmt.Sprintf("(assert (forall ((p Ptr)) (! (=> (not (and ((_ is Elem) p) (= (epar p) %s) (<= %s (eix p)) (< (eix p) (+ %s %s)))) (= (select %s p) (select %s p))) :pattern ((select %s p)))))",
				sarr(s.t), soff(s.t), soff(s.t), slen(s.t), h, prev, h))
			fc.noteWrite(k)
			st.heap[k] = h
			return
		}
		fc.unsupported("modifies contents of slice of " + et.String())
		return
	}
	k, srt := fc.bKey(et)
	blkOld := app("select", fc.comp(st, k, srt), sarr(s.t))
	nb := fc.fresh("blk", "(Array Int "+fc.tc.sortOf(et)+")")
	fc.emit(fmt.Sprintf("(assert (forall ((j Int)) (! (=> (or (< j %s) (>= j (+ %s %s))) (= (select %s j) (select %s j))) :pattern ((select %s j)))))",
		soff(s.t), soff(s.t), slen(s.t), nb, blkOld, nb))
	if lo, hi, ok := rangeOf(et); ok {
		fc.emit(fmt.Sprintf("(assert (forall ((j Int)) (! (and (<= %s (select %s j)) (< (select %s j) %s)) :pattern ((select %s j)))))", bignum(lo), nb, nb, bignum(hi), nb))
	}
	// a nil slice has no backing array: nothing changes
	fc.setComp(st, k, srt, ite(eq(sarr(s.t), nilPtr), fc.comp(st, k, srt), app("store", fc.comp(st, k, srt), sarr(s.t), nb)))
}

func (fr *Frame) builtin(in ssa.Instruction, b *ssa.Builtin, c *ssa.CallCommon, st *State, g string) []SV {
	fc := fr.fc
	tc := fc.tc
	pos := in.Pos()
	var args []SV
	for _, a := range c.Args {
		args = append(args, fr.val(a))
	}
	intT := types.Typ[types.Int]
	switch b.Name() {
	case "len", "cap":
		a := args[0]
		switch u := c.Args[0].Type().Underlying().(type) {
		case *types.Slice:
			if b.Name() == "len" {
				return []SV{{t: slen(a.t), typ: intT}}
			}
			return []SV{{t: scap(a.t), typ: intT}}
		case *types.Basic:
			return []SV{{t: app("strlen", a.t), typ: intT}}
		case *types.Array:
			return []SV{{t: num(u.Len()), typ: intT}}
		case *types.Pointer:
			if arr, ok := isArrayT(u.Elem()); ok {
				return []SV{{t: num(arr.Len()), typ: intT}}
			}
		case *types.Map:
			l := fc.define(fr.prefix+"maplen", "Int", ite(eq(a.t, nilPtr), "0", app("select", fc.comp(st, "ML", "(Array Ptr Int)"), a.t)))
			fc.assume("true", app(">=", l, "0"))
			fr.extMapLenEmpty(u, a.t, l, st) // ext_mapiter.go: a map of length 0 has no entry
			fc.mapLenWitness(st, u, a.t, l) // len(m) > 0 ==> m has some key (ext_c34.go)
			return []SV{{t: l, typ: intT}}
		}
		fc.unsupported("len of " + c.Args[0].Type().String())
		v := fc.fresh("len", "Int")
		return []SV{{t: v, typ: intT}}
	case "append":
		return []SV{fr.appendBuiltin(c, args, st, g, pos)}
	case "copy":
		return []SV{fr.copyBuiltin(c, args, st, g)}
	case "delete":
		m, k := args[0], args[1]
		mt := c.Args[0].Type().Underlying().(*types.Map)
		mh, _ := fc.mapComps(mt)
		hh := fc.comp(st, mh, fc.comps[mh])
		ml := fc.comp(st, "ML", "(Array Ptr Int)")
		had := and(not(eq(m.t, nilPtr)), app("select", app("select", hh, m.t), k.t))
		fc.setComp(st, "ML", "(Array Ptr Int)", ite(had, app("store", ml, m.t, app("-", app("select", ml, m.t), "1")), ml))
		fc.setComp(st, mh, fc.comps[mh], ite(eq(m.t, nilPtr), hh, app("store", hh, m.t, app("store", app("select", hh, m.t), k.t, "false"))))
		return nil
	case "min", "max":
		cur := args[0].t
		for _, a := range args[1:] {
			cur = app("i"+b.Name(), cur, a.t)
		}
		return []SV{{t: cur, typ: args[0].typ}}
	case "print", "println":
		return nil
	case "clear":
		fc.unsupported("clear")
		return nil
	case "recover":
		fc.unsupported("recover")
		return []SV{{t: tc.zero(types.NewInterfaceType(nil, nil)), typ: types.NewInterfaceType(nil, nil)}}
	}
	fc.unsupported("builtin " + b.Name())
	if in, ok := in.(ssa.Value); ok && in.Type() != nil {
		v := fc.fresh("bi", tc.sortOf(in.Type()))
		return []SV{{t: v, typ: in.Type()}}
	}
	return nil
}

func (fr *Frame) appendBuiltin(c *ssa.CallCommon, args []SV, st *State, g string, pos token.Pos) SV {
	fc := fr.fc
	tc := fc.tc
	s := args[0]
	st0 := types.Unalias(c.Args[0].Type()).Underlying()
	sl, ok := st0.(*types.Slice)
	if !ok {
		fc.unsupported("append to " + c.Args[0].Type().String())
		return SV{t: fc.fresh("app", "Slice"), typ: c.Args[0].Type()}
	}
	et := sl.Elem()
	// appended elements
	var addLen string
	var more SV
	if len(args) > 1 {
		more = args[1]
		if tc.sortOf(more.typ) == "Str" {
			addLen = app("strlen", more.t)
		} else {
			addLen = slen(more.t)
		}
	} else {
		addLen = "0"
	}
	newLen := fc.define(fr.prefix+"applen", "Int", plus(slen(s.t), addLen))
	// the result of an append that returns is a slice, so its length is an int (the runtime panics with "len out of range" otherwise; the
	// operand slices exist simultaneously, so for elements of non-zero size the sum of their lengths cannot reach 2^63 in the first place)
	fc.assume(g, app("<", newLen, "9223372036854775808"))
	// result: either in place (capacity suffices) or a fresh block; Go decides by capacity
	inPlace := app("<=", newLen, scap(s.t))
	p := fc.alloc(st)
	np := fc.define(fr.prefix+"apparr", "Ptr", p)
	ncap := fc.fresh(fr.prefix+"appcap", "Int")
	fc.assume("true", app(">=", ncap, newLen))
	res := fc.define(fr.prefix+"app", "Slice", ite(inPlace, mkSlice(sarr(s.t), soff(s.t), newLen, scap(s.t)), mkSlice(np, "0", newLen, ncap)))
	if !isLeaf(et) {
		if a, ok := isArrayT(et); ok && isLeaf(a.Elem()) {
			// slice of arrays: element i of the result block
			k, srt := fc.bKey(a.Elem())
			prev := fc.comp(st, k, srt)
			h := fc.fresh("H_"+mangle(k), srt)
			// old elements copied when reallocated; appended ones written at [len, newLen)
			if tc.sortOf(more.typ) == "Slice" {
				fc.emit(fmt.Sprintf("(assert (forall ((p Ptr)) (! (= (select %[1]s p) (ite (and ((_ is Elem) p) (= (epar p) (sarr %[2]s)) (<= (soff %[2]s) (eix p)) (< (eix p) (+ (soff %[2]s) %[3]s))) (ite (< (- (eix p) (soff %[2]s)) %[4]s) (select %[5]s (Elem %[6]s (+ %[7]s (- (eix p) (soff %[2]s))))) (select %[5]s (Elem %[8]s (+ %[9]s (- (- (eix p) (soff %[2]s)) %[4]s))))) (select %[5]s p))) :pattern ((select %[1]s p)))))",
					h, res, newLen, slen(s.t), prev, sarr(s.t), soff(s.t), sarr(more.t), soff(more.t)))
			}
			if tc.sortOf(more.typ) == "Slice" {
				// consequences of the axiom above in the index form spec reads use (element j of a slice is Elem(arr, idx(off, j))):
				// old elements are kept, appended ones follow; plus the ground instance for the common one-element append
				fc.emit(fmt.Sprintf("(assert (forall ((j Int)) (! (=> (and (<= 0 j) (< j %[2]s)) (= (select %[1]s (Elem (sarr %[3]s) %[4]s)) (select %[5]s (Elem %[6]s %[7]s)))) :pattern ((select %[1]s (Elem (sarr %[3]s) %[4]s))))))",
					h, slen(s.t), res, idx("(soff "+res+")", "j"), prev, sarr(s.t), idx(soff(s.t), "j")))
				fc.emit(fmt.Sprintf("(assert (forall ((j Int)) (! (=> (and (<= %[2]s j) (< j %[8]s)) (= (select %[1]s (Elem (sarr %[3]s) %[4]s)) (select %[5]s (Elem %[6]s %[7]s)))) :pattern ((select %[1]s (Elem (sarr %[3]s) %[4]s))))))",
					h, slen(s.t), res, idx("(soff "+res+")", "j"), prev, sarr(more.t), idx(soff(more.t), "(- j "+slen(s.t)+")"), newLen))
				fc.emit(fmt.Sprintf("(assert (=> (= %s 1) (= (select %s (Elem (sarr %s) %s)) (select %s (Elem %s %s)))))",
					addLen, h, res, idx("(soff "+res+")", slen(s.t)), prev, sarr(more.t), idx(soff(more.t), "0")))
			}
			fc.noteWrite(k)
			st.heap[k] = h
			return SV{t: res, typ: c.Args[0].Type()}
		}
		if fr.appendStructElems(s, more, len(args) > 1, res, newLen, st, et) { // ext_crypto.go: slice of flat structs
			return SV{t: res, typ: c.Args[0].Type()}
		}
		fc.unsupported("append to slice of " + et.String())
		return SV{t: res, typ: c.Args[0].Type()}
	}
	k, srt := fc.bKey(et)
	heap := fc.comp(st, k, srt)
	oldBlk := app("select", heap, sarr(s.t))
	es := tc.sortOf(et)
	// common single-element case: append(s, x) lowers to a 1-element slice of a fresh array
	nb := fc.fresh(fr.prefix+"appblk", "(Array Int "+es+")")
	ro := soff(res)
	// contents (relative index j): j < len(s): nb[ro+j] = old[soff+j]; len <= j < newLen: nb[ro+j] = more[j-len]; in place: outside window unchanged
	if len(args) > 1 {
		// k = j - len(s) ranges over the appended elements
		var moreAt string
		if tc.sortOf(more.typ) == "Str" {
			moreAt = fmt.Sprintf("(strat %s k)", more.t)
		} else {
			moreAt = fmt.Sprintf("(select (select %s %s) %s)", heap, sarr(more.t), idx(soff(more.t), "k"))
		}
		fc.emit(fmt.Sprintf("(assert (forall ((k Int)) (! (=> (and (<= 0 k) (< k %s)) (= (select %s %s) %s)) :pattern ((select %s %s)))))",
			addLen, nb, idx(ro, "(+ "+slen(s.t)+" k)"), moreAt, nb, idx(ro, "(+ "+slen(s.t)+" k)")))
		if tc.sortOf(more.typ) != "Str" {
			// the same fact in absolute-index form (a = len(s) + k), so that a read of the new block at ANY index term triggers it
			// (the pattern above only matches index terms of the syntactic form len(s) + k)
			fc.emit(fmt.Sprintf("(assert (forall ((a Int)) (! (=> (and (<= %s a) (< a (+ %s %s))) (= (select %s %s) (select (select %s %s) %s))) :pattern ((select %s %s)))))",
				slen(s.t), slen(s.t), addLen, nb, idx(ro, "a"), heap, sarr(more.t), idx(soff(more.t), "(- a "+slen(s.t)+")"), nb, idx(ro, "a")))
		}
		// the common one-element case gets a ground instance
		fc.emit(fmt.Sprintf("(assert (=> (= %s 1) (= (select %s %s) %s)))", addLen, nb, idx(ro, slen(s.t)), strings.ReplaceAll(moreAt, " k)", " 0)")))
	}
	fc.emit(fmt.Sprintf("(assert (forall ((j Int)) (! (=> (and (<= 0 j) (< j %s)) (= (select %s %s) (select %s %s))) :pattern ((select %s %s)))))",
		slen(s.t), nb, idx(ro, "j"), oldBlk, idx(soff(s.t), "j"), nb, idx(ro, "j")))
	if fr.rootMode("append-back") {
		// `mode append-back`: the same fact, also instantiated from reads of the OLD block, so that an element known before the append
		// (e.g. an existential witness of a loop invariant) is known to be an element of the result
		fc.emit(fmt.Sprintf("(assert (forall ((j Int)) (! (=> (and (<= 0 j) (< j %s)) (= (select %s %s) (select %s %s))) :pattern ((select %s %s)))))",
			slen(s.t), nb, idx(ro, "j"), oldBlk, idx(soff(s.t), "j"), oldBlk, idx(soff(s.t), "j")))
	}
	fc.emit(fmt.Sprintf("(assert (=> %s (forall ((i Int)) (! (=> (or (< i %s) (>= i (+ %s %s))) (= (select %s i) (select %s i))) :pattern ((select %s i))))))",
		inPlace, soff(s.t), soff(s.t), newLen, nb, oldBlk, nb))
	fc.setComp(st, k, srt, app("store", heap, sarr(res), nb))
	if isByteT(et) && len(args) > 1 && tc.sortOf(more.typ) == "Slice" {
		// the result holds the concatenation of the two byte strings (see builtins seq, cat)
		fc.eng.declareUF(fc, "bseq", []string{"(Array Int Int)", "Int", "Int"}, "Int")
		fc.eng.declareUF(fc, "bcat", []string{"Int", "Int"}, "Int")
		fc.assume("true", eq(app("bseq", nb, ro, newLen), app("bcat", app("bseq", oldBlk, soff(s.t), slen(s.t)), app("bseq", app("select", heap, sarr(more.t)), soff(more.t), addLen))))
		// ... whose prefix is the old byte string and whose suffix is the appended one
		fc.assume("true", eq(app("bseq", nb, ro, slen(s.t)), app("bseq", oldBlk, soff(s.t), slen(s.t))))
		fc.assume("true", eq(app("bseq", nb, plus(ro, slen(s.t)), addLen), app("bseq", app("select", heap, sarr(more.t)), soff(more.t), addLen)))
	}
	return SV{t: res, typ: c.Args[0].Type()}
}

func (fr *Frame) copyBuiltin(c *ssa.CallCommon, args []SV, st *State, g string) SV {
	fc := fr.fc
	tc := fc.tc
	dst, src := args[0], args[1]
	sl := types.Unalias(c.Args[0].Type()).Underlying().(*types.Slice)
	et := sl.Elem()
	var srcLen string
	if tc.sortOf(src.typ) == "Str" {
		srcLen = app("strlen", src.t)
	} else {
		srcLen = slen(src.t)
	}
	n := fc.define(fr.prefix+"copyn", "Int", app("imin", slen(dst.t), srcLen))
	if !isLeaf(et) {
		fc.unsupported("copy of slice of " + et.String())
		return SV{t: n, typ: types.Typ[types.Int]}
	}
	k, srt := fc.bKey(et)
	heap := fc.comp(st, k, srt)
	oldBlk := app("select", heap, sarr(dst.t))
	nb := fc.fresh(fr.prefix+"copyblk", "(Array Int "+tc.sortOf(et)+")")
	var srcAt string
	if tc.sortOf(src.typ) == "Str" {
		srcAt = fmt.Sprintf("(strat %s j)", src.t)
	} else {
		srcAt = fmt.Sprintf("(select (select %s %s) %s)", heap, sarr(src.t), idx(soff(src.t), "j"))
	}
	fc.emit(fmt.Sprintf("(assert (forall ((j Int)) (! (=> (and (<= 0 j) (< j %s)) (= (select %s %s) %s)) :pattern ((select %s %s)))))",
		n, nb, idx(soff(dst.t), "j"), srcAt, nb, idx(soff(dst.t), "j")))
	fc.emit(fmt.Sprintf("(assert (forall ((i Int)) (! (=> (or (< i %s) (>= i (+ %s %s))) (= (select %s i) (select %s i))) :pattern ((select %s i)))))",
		soff(dst.t), soff(dst.t), n, nb, oldBlk, nb))
	if tc.sortOf(src.typ) == "Slice" {
		// the same fact in absolute-index form, so that any read of the new block triggers it
		fc.emit(fmt.Sprintf("(assert (forall ((i Int)) (! (=> (and (<= %s i) (< i (+ %s %s))) (= (select %s i) (select (select %s %s) (+ %s (- i %s))))) :pattern ((select %s i)))))",
			soff(dst.t), soff(dst.t), n, nb, heap, sarr(src.t), soff(src.t), soff(dst.t), nb))
	}
	fc.setComp(st, k, srt, app("store", heap, sarr(dst.t), nb))
	if isByteT(et) && tc.sortOf(src.typ) == "Slice" {
		// the copied window holds the same byte string as the source window (see builtin seq)
		fc.eng.declareUF(fc, "bseq", []string{"(Array Int Int)", "Int", "Int"}, "Int")
		fc.assume("true", eq(app("bseq", nb, soff(dst.t), n), app("bseq", app("select", heap, sarr(src.t)), soff(src.t), n)))
		// ... and every window of the destination block that is disjoint from the written one holds the byte string it held
		// before (bseq is a function of the content of the window; added for C13: two copies into the halves of one array)
		if fc.usesFact("blockframe") { // opt-in (`uses blockframe`), see ext_crypto.go
			fc.emit(fmt.Sprintf("(assert (forall ((wo Int) (wn Int)) (! (=> (and (>= wn 0) (or (<= (+ wo wn) %s) (>= wo (+ %s %s)))) (= (bseq %s wo wn) (bseq %s wo wn))) :pattern ((bseq %s wo wn)))))",
				soff(dst.t), soff(dst.t), n, nb, oldBlk, nb))
		}
	}
	if _, used := fc.ufs["kvval"]; used && fc.tc.sortOf(et) == "Int" && tc.sortOf(src.typ) != "Str" {
		// T-KV: value ids are functions of the content, and copy makes dst[:n] and src[:n] equal byte strings
		// (ground instance of extensionality at the copy site; only in functions whose specs mention kvval)
		fc.assume(g, eq(app("kvval", nb, soff(dst.t), n), app("kvval", app("select", heap, sarr(src.t)), soff(src.t), n)))
	}
	return SV{t: n, typ: types.Typ[types.Int]}
}

func isByteT(t types.Type) bool {
	b, ok := types.Unalias(t).Underlying().(*types.Basic)
	return ok && b.Kind() == types.Uint8
}

var _ = strings.Contains

// sortSliceModel: assumed semantics of sort.Slice(x, less) (T-SORT): the window is permuted (bijection witness)
// and ordered by the closure's definitional contract.
func (fr *Frame) sortSliceModel(c *ssa.CallCommon, st *State, g string, pos token.Pos) bool {
	fc := fr.fc
	mi, ok := c.Args[0].(*ssa.MakeInterface)
	if !ok {
		return false
	}
	sl, ok := types.Unalias(mi.X.Type()).Underlying().(*types.Slice)
	if !ok || !isLeaf(sl.Elem()) {
		return false
	}
	s := fr.val(mi.X)
	lessV := fr.val(c.Args[1])
	rec := fc.eng.closures[lessV.t]
	if rec == nil {
		return false
	}
	fc.assumes["assumed contract: sort.Slice permutes the slice and orders it by less (T-SORT)"] = true
	k, srt := fc.bKey(sl.Elem())
	heap := fc.comp(st, k, srt)
	oldBlk := fc.define(fr.prefix+"sortold", "(Array Int "+fc.tc.sortOf(sl.Elem())+")", app("select", heap, sarr(s.t)))
	nb := fc.fresh(fr.prefix+"sortblk", "(Array Int "+fc.tc.sortOf(sl.Elem())+")")
	fc.nfresh++
	perm, pinv := fmt.Sprintf("perm!%d", fc.nfresh), fmt.Sprintf("pinv!%d", fc.nfresh)
	fc.emit(fmt.Sprintf("(declare-fun %s (Int) Int)", perm))
	fc.emit(fmt.Sprintf("(declare-fun %s (Int) Int)", pinv))
	off, n := soff(s.t), slen(s.t)
	inr := func(v string) string { return fmt.Sprintf("(and (<= 0 %s) (< %s %s))", v, v, n) }
	at := func(blk, j string) string { return app("select", blk, idx(off, j)) }
	fc.emit(fmt.Sprintf("(assert (forall ((a Int)) (! (=> %s (and %s (= %s %s) (= (%s (%s a)) a))) :pattern (%s) :pattern ((%s a)))))",
		inr("a"), inr("("+perm+" a)"), at(nb, "a"), at(oldBlk, "("+perm+" a)"), pinv, perm, at(nb, "a"), perm))
	fc.emit(fmt.Sprintf("(assert (forall ((b Int)) (! (=> %s (and %s (= (%s (%s b)) b) (= %s %s))) :pattern ((%s b)) :pattern (%s))))",
		inr("b"), inr("("+pinv+" b)"), perm, pinv, at(nb, "("+pinv+" b)"), at(oldBlk, "b"), pinv, at(oldBlk, "b")))
	fc.emit(fmt.Sprintf("(assert (forall ((a Int)) (! (=> (not (and (<= %s a) (< a (+ %s %s)))) (= (select %s a) (select %s a))) :pattern ((select %s a)))))", off, off, n, nb, oldBlk, nb))
	// injectivity stated directly (follows from the inverse; spares the solver a step)
	fc.emit(fmt.Sprintf("(assert (forall ((a Int) (b Int)) (! (=> (and %s %s (not (= a b))) (not (= (%s a) (%s b)))) :pattern ((%s a) (%s b)))))", inr("a"), inr("b"), perm, perm, perm, perm))
	fc.setComp(st, k, srt, app("store", heap, sarr(s.t), nb))
	// ordering through the closure's definitional contract
	spec := fc.eng.specFor(rec.fn)
	if spec == nil {
		fc.warn("sort.Slice comparator %s has no contract: order unknown", funcKey(rec.fn))
		return true
	}
	fc.calleesUsed[funcKey(rec.fn)] = true
	sub := fc.newFrame(rec.fn, "", fr.depth+1, false)
	sub.bindings = rec.bindings
	sub.params = []SV{{t: "qi", typ: types.Typ[types.Int]}, {t: "qj", typ: types.Typ[types.Int]}}
	env := sub.specEnv(st, st)
	for _, cl := range spec.Ensures {
		b, ok := cl.E.(*EBinary)
		if !ok || b.Op != "<==>" {
			continue
		}
		if id, ok := b.X.(*EIdent); !ok || id.Name != "result" {
			continue
		}
		t, err := env.evalBool(b.Y)
		if err != nil {
			fc.eng.stale(spec, cl, err)
			continue
		}
		// less(qi,qj) == t ; sorted: forall i<j in window (relative indices): !less(j,i)
		fc.nfresh++
		lf := fmt.Sprintf("less!%d", fc.nfresh)
		fc.emit(fmt.Sprintf("(define-fun %s ((qi Int) (qj Int)) Bool %s)", lf, t))
		fc.emit(fmt.Sprintf("(assert (forall ((i Int) (j Int)) (=> (and (<= 0 i) (< i j) (< j %s)) (not (%s j i)))))", n, lf))
	}
	return true
}

const badgerPkgPath = "(*github.com/dgraph-io/badger/v4"

// badgerRunModel: assumed semantics of (*badger.DB).Update(fn) and (*badger.DB).View(fn) (T-KV, sequential reading):
// fn is called once with a new transaction whose view is the current state of the DB; Update commits that view iff fn
// returned nil (the commit itself may fail, then nothing is written); View never changes the DB and returns fn's error.
// The effect of fn is taken from the CLOSURE'S OWN CONTRACT (which is verified separately against its body); the abstract
// state functions kvget/dbget are the ones declared in trusted/badger.spec. Returns ok == false (caller falls back to the
// assumed contract of Update/View in badger.spec) when the closure is not syntactically known or has no contract.
func (fr *Frame) badgerRunModel(key string, c *ssa.CallCommon, st *State, g string, pos token.Pos) ([]SV, bool) {
	fc := fr.fc
	if len(c.Args) != 2 {
		return nil, false
	}
	db, fnv := fr.val(c.Args[0]), fr.val(c.Args[1])
	rec := fc.eng.closures[fnv.t]
	if rec == nil {
		return nil, false
	}
	cspec := fc.eng.specFor(rec.fn)
	if cspec == nil || rec.fn.Signature.Params().Len() != 1 {
		fc.warn("badger Update/View at %s: closure %s has no contract, falling back to the assumed contract", fc.eng.pos(pos), funcKey(rec.fn))
		return nil, false
	}
	bpkg := fc.eng.pkgOfSpec(&FuncSpec{Pkg: "github.com/dgraph-io/badger/v4"})
	txnPtrT := rec.fn.Signature.Params().At(0).Type()
	tp, ok1 := types.Unalias(txnPtrT).Underlying().(*types.Pointer)
	dp, ok2 := types.Unalias(c.Args[0].Type()).Underlying().(*types.Pointer)
	if bpkg == nil || !ok1 || !ok2 {
		return nil, false
	}
	update := strings.HasSuffix(key, ".Update")
	fc.assumes["assumed contract: badger DB.Update/View run the closure on a transaction over the current DB state; Update commits iff it returns nil (T-KV, built-in model)"] = true
	fc.calleesUsed[funcKey(rec.fn)] = true
	fr.safe("nil", g, not(eq(db.t, nilPtr)), pos, "Update/View on nil *badger.DB")
	mustEval := func(env *SpecEnv, src string) string {
		x, err := parseExpr(src)
		if err != nil {
			panic(specErr{"badger model: " + err.Error()})
		}
		t, err := env.evalBool(x)
		if err != nil {
			panic(specErr{"badger model (is trusted/badger.spec loaded?): " + err.Error()})
		}
		return t
	}
	// the new transaction
	p := fc.define(fr.prefix+"kvtxn", "Ptr", fc.alloc(st))
	fc.havocAt(st, g, p, tp.Elem())
	txn := SV{t: p, typ: txnPtrT}
	env := &SpecEnv{fc: fc, vars: map[string]SV{"db": db, "txn": txn}, cur: st, old: st, pkg: bpkg}
	fc.assume(g, mustEval(env, "forall k mathint :: {kvget(*txn, k)} {dbget(*db, k)} kvget(*txn, k) == dbget(*db, k)"))
	pre := st.clone()
	res := fr.applySpecClosure(cspec, funcKey(rec.fn), rec.fn.Signature, []SV{txn}, st, g, pos, rec)
	if len(res) != 1 {
		return nil, false
	}
	errT := types.Universe.Lookup("error").Type()
	r := SV{t: fc.fresh(fr.prefix+"kvrun", "Iface"), typ: errT}
	if update {
		fc.havocAt(st, g, db.t, dp.Elem())
	}
	fc.bumpWatermark(st)
	fr.assumeWF([]SV{r}, st, g)
	env = &SpecEnv{fc: fc, vars: map[string]SV{"db": db, "txn": txn, "e": res[0], "result": r}, cur: st, old: pre, pkg: bpkg}
	if update {
		fc.assume(g, mustEval(env, "e != nil ==> result == e && *db == old(*db)"))
		fc.assume(g, mustEval(env, "e == nil ==> (result == nil && forall k mathint :: {dbget(*db, k)} {kvget(*txn, k)} dbget(*db, k) == kvget(*txn, k)) || (result != nil && *db == old(*db))"))
	} else {
		fc.assume(g, mustEval(env, "result == e"))
	}
	return []SV{r}, true
}

// trustsPre: the root function's contract declares the preconditions of this callee as assumed (trustpre clause).
// ignoresPost: the root function's contract drops this postcondition of the callee at its call sites (ignorepost clause).
func (fr *Frame) ignoresPost(key, label string) bool {
	root := fr
	for root.callerFrame != nil {
		root = root.callerFrame
	}
	if root.spec == nil || root.spec.IgnorePost == nil {
		return false
	}
	for n, keep := range root.spec.IgnorePost {
		if key == n || strings.HasSuffix(key, "."+n) || strings.HasSuffix(key, ")."+n) {
			for _, k := range keep {
				if k == label && label != "" {
					return false
				}
			}
			return true
		}
	}
	return false
}

func (fr *Frame) trustsPreQuiet(key string) bool {
	root := fr
	for root.callerFrame != nil {
		root = root.callerFrame
	}
	if root.spec == nil {
		return false
	}
	for _, n := range root.spec.TrustPreQuiet {
		if key == n || strings.HasSuffix(key, "."+n) || strings.HasSuffix(key, ")."+n) {
			return true
		}
	}
	return false
}

func (fr *Frame) trustsPre(key string) bool {
	root := fr
	for root.callerFrame != nil {
		root = root.callerFrame
	}
	if root.spec == nil {
		return false
	}
	for _, n := range root.spec.TrustPre {
		if key == n || strings.HasSuffix(key, "."+n) || strings.HasSuffix(key, ")."+n) {
			return true
		}
	}
	return false
}
