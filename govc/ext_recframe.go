package main

import (
	"fmt"
	"strings"
)

// recFrameAxioms: frame axioms for a recursive spec function (see applyRec).
//
// A `rec` function is an uninterpreted function of the heap components its body reads. A store into one of those
// components therefore yields a syntactically different application, and relating the two needs an induction the solver
// cannot do. For the common case of a write to a LOCAL of the function under verification (a `Base` pointer: an
// allocation root, e.g. the `hash` accumulator of ComputeRoundHash, which shares the [32]byte component with the
// snapshots' Hash fields) the induction is done here, once, on the syntax of the defining equation:
//
//	if every occurrence of the component H in the body is either  (select H (Fld ..))  /  (select H (Elem ..))
//	or the heap argument of a self call f(.., H, .., n-1), then for every Base pointer p and value v
//	    f(.., (store H p v), .., n) == f(.., H, .., n)
//
// Proof (induction on n, all other arguments universally quantified): Fld/Elem/Base are distinct constructors, so each
// select of the body reads the same cell in both heaps; the remaining occurrences are self calls at n-1 (recWellFounded
// guarantees they are in the step branch with last argument n-1), equal by the induction hypothesis; for n <= 0 the body
// has no self call. Components that do not meet the syntactic condition get no axiom (always sound: fewer assumptions).
func recFrameAxioms(name string, comps, hnames []string, compSorts map[string]string, hdecls, decls, argNames []string, body string) string {
	self := "(" + name + " " + strings.Join(hnames, " ")
	rest := strings.ReplaceAll(body, self, "(SELF")
	var out []string
	for i, k := range comps {
		srt := compSorts[k]
		if !strings.HasPrefix(srt, "(Array Ptr ") {
			continue
		}
		valSort := strings.TrimSuffix(strings.TrimPrefix(srt, "(Array Ptr "), ")")
		hn := hnames[i]
		ok, pos := true, 0
		for {
			j := strings.Index(rest[pos:], hn)
			if j < 0 {
				break
			}
			j += pos
			end := j + len(hn)
			pos = end
			if end < len(rest) && rest[end] != ' ' && rest[end] != ')' {
				continue // a longer identifier
			}
			if j > 0 && rest[j-1] != ' ' && rest[j-1] != '(' {
				continue
			}
			before := strings.HasSuffix(rest[:j], "(select ")
			after := strings.HasPrefix(rest[end:], " (Fld ") || strings.HasPrefix(rest[end:], " (Elem ")
			if !before || !after {
				ok = false
				break
			}
		}
		if !ok {
			continue
		}
		stored := make([]string, len(hnames))
		copy(stored, hnames)
		stored[i] = "(store " + hn + " rfp rfv)"
		lhs := app(name, append(stored, argNames...)...)
		rhs := app(name, append(append([]string{}, hnames...), argNames...)...)
		all := append(append([]string{}, hdecls...), decls...)
		all = append(all, "(rfp Ptr)", "(rfv "+valSort+")")
		out = append(out, fmt.Sprintf("(assert (forall (%s) (! (=> ((_ is Base) rfp) (= %s %s)) :pattern (%s))))", strings.Join(all, " "), lhs, rhs, lhs))
	}
	return strings.Join(out, "\n")
}
