package main

import (
	"fmt"
	"strings"
)

// recFrameAxioms: frame axioms for a recursive spec function (see applyRec).
//
// A `rec` function is an uninterpreted function of the heap components its body reads. A store into one of those
// components therefore yields a syntactically different application, and relating the two needs an induction the solver
// cannot do. For the common case of a write to a LOCAL of the function under verification (a `Base` pointer: an
// allocation root, e.g. the `hash` accumulator of ComputeRoundHash, which shares the [32]byte component with the
// snapshots' Hash fields) the induction is done here, once, on the syntax of the defining equation:
//
//	if every occurrence of the component H in the body is either  (select H (Fld .. k))  /  (select H (Elem ..))
//	or the heap argument of a self call f(.., H, .., n-1), then for every value v and every pointer p that is
//	  - a Base pointer, or
//	  - a Fld pointer whose field key differs from every k read (only when all those k are literals: field keys are
//	    global ids of (struct type, field), types.go fieldKey, so cells of different fields never alias), or
//	  - an Elem pointer when the body reads no Elem cell of H:
//	    f(.., (store H p v), .., n) == f(.., H, .., n)
//
// Proof (induction on n, all other arguments universally quantified): Fld/Elem/Base are distinct constructors and Fld is
// injective in its key, so each select of the body reads the same cell in both heaps; the remaining occurrences are self
// calls at n-1 (recWellFounded guarantees they are in the step branch with last argument n-1), equal by the induction
// hypothesis; for n <= 0 the body has no self call. Components that do not meet the syntactic condition get no axiom
// (always sound: fewer assumptions). Typical use: the fields of a freshly built result struct (`&FinalRound{Hash: h}`)
// share the [32]byte component with the snapshots' Hash fields a chain function reads.
func recFrameAxioms(name string, comps, hnames []string, compSorts map[string]string, hdecls, decls, argNames []string, body string) string {
	self := "(" + name + " " + strings.Join(hnames, " ")
	rest := strings.ReplaceAll(body, self, "(SELF")
	var out []string
	for i, k := range comps {
		srt := compSorts[k]
		if !strings.HasPrefix(srt, "(Array Ptr ") {
			continue
		}
		valSort := strings.TrimSuffix(strings.TrimPrefix(srt, "(Array Ptr "), ")")
		hn := hnames[i]
		ok, pos := true, 0
		fldKeys, fldAny, elemRead := map[string]bool{}, false, false
		for {
			j := strings.Index(rest[pos:], hn)
			if j < 0 {
				break
			}
			j += pos
			end := j + len(hn)
			pos = end
			if end < len(rest) && rest[end] != ' ' && rest[end] != ')' {
				continue // a longer identifier
			}
			if j > 0 && rest[j-1] != ' ' && rest[j-1] != '(' {
				continue
			}
			before := strings.HasSuffix(rest[:j], "(select ")
			after := strings.HasPrefix(rest[end:], " (Fld ") || strings.HasPrefix(rest[end:], " (Elem ")
			if !before || !after {
				ok = false
				break
			}
			if strings.HasPrefix(rest[end:], " (Elem ") {
				elemRead = true
				continue
			}
			// the key of (Fld <term> <key>): last token before the matching parenthesis
			depth, close := 0, -1
			for q := end + 1; q < len(rest); q++ {
				if rest[q] == '(' {
					depth++
				} else if rest[q] == ')' {
					depth--
					if depth == 0 {
						close = q
						break
					}
				}
			}
			if close < 0 {
				ok = false
				break
			}
			key := rest[strings.LastIndexAny(rest[:close], " )")+1 : close]
			if key == "" || strings.Trim(key, "0123456789") != "" {
				fldAny = true
			} else {
				fldKeys[key] = true
			}
		}
		if !ok {
			continue
		}
		stored := make([]string, len(hnames))
		copy(stored, hnames)
		stored[i] = "(store " + hn + " rfp rfv)"
		lhs := app(name, append(stored, argNames...)...)
		rhs := app(name, append(append([]string{}, hnames...), argNames...)...)
		all := append(append([]string{}, hdecls...), decls...)
		all = append(all, "(rfp Ptr)", "(rfv "+valSort+")")
		conds := []string{"((_ is Base) rfp)"}
		if !fldAny {
			c := []string{"((_ is Fld) rfp)"}
			var ks []string
			for k := range fldKeys {
				ks = append(ks, k)
			}
			sortStrings(ks)
			for _, k := range ks {
				c = append(c, "(not (= (fk rfp) "+k+"))")
			}
			conds = append(conds, "(and "+strings.Join(c, " ")+")")
		}
		if !elemRead {
			conds = append(conds, "((_ is Elem) rfp)")
		}
		out = append(out, fmt.Sprintf("(assert (forall (%s) (! (=> (or %s) (= %s %s)) :pattern (%s))))", strings.Join(all, " "), strings.Join(conds, " "), lhs, rhs, lhs))
	}
	return strings.Join(out, "\n")
}
