package main

import (
	"bytes"
	"context"
	"fmt"
	"os"
	"strconv"
	"os/exec"
	"path/filepath"
	"strings"
	"sync"
	"time"
)

type SolveResult struct {
	Verdict string // unsat sat unknown timeout error
	Solver  string
	TimeS   float64
	Model   string
	Raw     string
	Attempts []string
}

type solverDef struct {
	name string
	cmd  func(file string, timeoutS int, seed int) []string
}

var solvers = []solverDef{
	{"z3-new", func(f string, t, seed int) []string {
		return []string{"z3-new", fmt.Sprintf("-T:%d", t), fmt.Sprintf("smt.random_seed=%d", seed), fmt.Sprintf("sat.random_seed=%d", seed), f}
	}},
	{"z3-new/noauto", func(f string, t, seed int) []string {
		return []string{"z3-new", fmt.Sprintf("-T:%d", t), "smt.auto_config=false", fmt.Sprintf("smt.random_seed=%d", seed), f}
	}},
	{"z3-new/arith2", func(f string, t, seed int) []string {
		// the previous simplex core: index equalities modulo linear arithmetic under uninterpreted functions (select/idx) are decided
		// quickly where the default arithmetic solver is seed-sensitive (C34 ParseCustodianUpdateNodesExtra [content]), and vice versa
		return []string{"z3-new", fmt.Sprintf("-T:%d", t), "smt.arith.solver=2", fmt.Sprintf("smt.random_seed=%d", seed), f}
	}},
	{"z3", func(f string, t, seed int) []string {
		return []string{"z3", fmt.Sprintf("-T:%d", t), fmt.Sprintf("smt.random_seed=%d", seed), f}
	}},
	{"cvc5", func(f string, t, seed int) []string {
		return []string{"cvc5", "--produce-models", fmt.Sprintf("--tlimit=%d", t*1000), fmt.Sprintf("--seed=%d", seed), f}
	}},
}

func runSolver(ctx context.Context, sd solverDef, file string, timeoutS, seed int) (string, string, float64) {
	// The budget of a solver run is timeoutS seconds of CPU time (ulimit -t), with a wall-clock ceiling of wallFactor times that:
	// on an idle machine the two coincide, on a loaded machine an obligation still gets the CPU time it needs instead of turning
	// into a spurious timeout (the solvers' own timeouts are wall-clock).
	wall := timeoutS * wallFactor()
	args := sd.cmd(file, wall, seed)
	start := time.Now()
	cctx, cancel := context.WithTimeout(ctx, time.Duration(wall+5)*time.Second)
	defer cancel()
	sh := fmt.Sprintf("ulimit -t %d; exec \"$@\"", timeoutS+1)
	cmd := exec.CommandContext(cctx, "bash", append([]string{"-c", sh, "govc-solver"}, args...)...)
	var out bytes.Buffer
	cmd.Stdout = &out
	cmd.Stderr = &out
	cmd.Run()
	el := time.Since(start).Seconds()
	s := out.String()
	// z3 prints "WARNING: ... 'if' cannot be used in patterns" before the verdict for some append axioms: skip such lines
	for strings.HasPrefix(s, "WARNING") {
		i := strings.Index(s, "\n")
		if i < 0 {
			break
		}
		s = s[i+1:]
	}
	first := strings.TrimSpace(strings.SplitN(s, "\n", 2)[0])
	switch first {
	case "sat", "unsat", "unknown":
		return first, s, el
	case "timeout":
		return "timeout", s, el
	}
	if cctx.Err() != nil {
		return "timeout", s, el
	}
	if cmd.ProcessState != nil && !cmd.ProcessState.Exited() {
		return "timeout", s, el // killed by the CPU-time limit
	}
	if strings.Contains(s, "timeout") || strings.Contains(s, "interrupted") {
		return "timeout", s, el
	}
	return "error", s, el
}

// wallFactor: wall-clock ceiling of a solver run as a multiple of its CPU budget (GOVC_WALL_FACTOR, default 4).
func wallFactor() int {
	if v := os.Getenv("GOVC_WALL_FACTOR"); v != "" {
		if n, err := strconv.Atoi(v); err == nil && n >= 1 && n <= 20 {
			return n
		}
	}
	return 4
}

// raceSolvers runs all solvers on one query file and returns the first definite answer.
func raceSolvers(file string, timeoutS, seed int, only string) *SolveResult {
	ctx, cancel := context.WithCancel(context.Background())
	defer cancel()
	type r struct {
		name, verdict, raw string
		t                  float64
	}
	ch := make(chan r, len(solvers))
	n := 0
	for _, sd := range solvers {
		if only != "" && sd.name != only {
			continue
		}
		n++
		go func(sd solverDef) {
			v, raw, t := runSolver(ctx, sd, file, timeoutS, seed)
			ch <- r{sd.name, v, raw, t}
		}(sd)
	}
	res := &SolveResult{Verdict: "unknown"}
	for i := 0; i < n; i++ {
		x := <-ch
		res.Attempts = append(res.Attempts, fmt.Sprintf("%s:%s:%.2fs", x.name, x.verdict, x.t))
		if x.verdict == "unsat" || x.verdict == "sat" {
			res.Verdict, res.Solver, res.TimeS, res.Raw = x.verdict, x.name, x.t, x.raw
			if x.verdict == "sat" {
				if i := strings.Index(x.raw, "\n"); i >= 0 {
					res.Model = x.raw[i+1:]
				}
			}
			cancel()
			return res
		}
		if x.verdict == "error" && res.Raw == "" {
			res.Raw = x.raw
		}
		if x.verdict == "timeout" && res.Verdict == "unknown" {
			res.Verdict = "timeout"
		}
		res.TimeS += x.t
	}
	return res
}

// renderBatch renders the whole function as one incremental script.
func (fc *FnCtx) renderBatch(chunk, nchunks int) string {
	var b strings.Builder
	b.WriteString(fc.preamble())
	k := 0
	for _, it := range fc.script {
		if it.ob == nil {
			b.WriteString(it.cmd + "\n")
			continue
		}
		ob := it.ob
		k++
		if ob.Result == nil && k%nchunks == chunk {
			b.WriteString("(push 1)\n")
			fmt.Fprintf(&b, "(assert (and %s (not %s)))\n", ob.Guard, ob.Cond)
			fmt.Fprintf(&b, "(echo \"@@ %s\")\n(check-sat)\n(pop 1)\n", ob.Name)
		}
		if !ob.Cover {
			if c := implies(ob.Guard, ob.Cond); c != "true" {
				b.WriteString("(assert " + c + ")\n")
			}
		}
	}
	return b.String()
}

// renderOne renders the query for a single obligation (everything that precedes it is assumed).
func (fc *FnCtx) renderOne(target *Obligation, withModel bool) string {
	var b strings.Builder
	b.WriteString(fc.preamble())
	for _, it := range fc.script {
		if it.ob == nil {
			b.WriteString(it.cmd + "\n")
			continue
		}
		ob := it.ob
		if ob == target {
			fmt.Fprintf(&b, "(assert (and %s (not %s)))\n(check-sat)\n", ob.Guard, ob.Cond)
			if withModel {
				b.WriteString("(get-model)\n")
			}
			return b.String()
		}
		if !ob.Cover {
			if c := implies(ob.Guard, ob.Cond); c != "true" {
				b.WriteString("(assert " + c + ")\n")
			}
		}
	}
	return b.String()
}

// globalSem bounds the number of solver batch processes across all functions.
var globalSem = make(chan struct{}, 12)

type solveOpts struct {
	outDir   string
	quickS   int
	retryS   int
	seed     int
	keep     bool
	known    map[string]bool // obligations registered in known_findings.json: one short attempt, no long retry (see attempt below)
}

// solveAll decides every obligation of the context. Batch pass with z3-new first, stragglers individually on all solvers.
func (fc *FnCtx) solveAll(o solveOpts, tag string) {
	if len(fc.obls) == 0 {
		return
	}
	os.MkdirAll(o.outDir, 0o755)
	base := filepath.Join(o.outDir, mangle(tag))
	// trivial obligations are discharged syntactically (still counted)
	pending := 0
	for _, ob := range fc.obls {
		if !ob.Cover && (ob.Cond == "true" || ob.Guard == "false") {
			ob.Result = &SolveResult{Verdict: "unsat", Solver: "syntactic"}
			continue
		}
		pending++
	}
	if pending > 0 {
		// the obligations are split into chunks; every chunk script contains the whole function but only checks its own obligations
		nchunks := pending/12 + 1
		if nchunks > 8 {
			nchunks = 8
		}
		var mu sync.Mutex
		var cwg sync.WaitGroup
		for c := 0; c < nchunks; c++ {
			cwg.Add(1)
			go func(c int) {
				defer cwg.Done()
				globalSem <- struct{}{}
				defer func() { <-globalSem }()
				batch := fmt.Sprintf("%s.batch%d.smt2", base, c)
				os.WriteFile(batch, []byte("(set-option :timeout 2000)\n"+fc.renderBatch(c, nchunks)), 0o644)
				start := time.Now()
				ctx, cancel := context.WithTimeout(context.Background(), time.Duration(30+3*pending/nchunks)*time.Second)
				args := []string{fmt.Sprintf("smt.random_seed=%d", o.seed), batch}
				if c%2 == 1 {
					args = append([]string{"smt.auto_config=false"}, args...)
				}
				cmd := exec.CommandContext(ctx, "z3-new", args...)
				var out bytes.Buffer
				cmd.Stdout = &out
				cmd.Stderr = &out
				cmd.Run()
				cancel()
				el := time.Since(start).Seconds()
				lines := strings.Split(out.String(), "\n")
				verd := map[string]string{}
				for i := 0; i < len(lines); i++ {
					l := strings.TrimSpace(strings.Trim(strings.TrimSpace(lines[i]), "\""))
					if strings.HasPrefix(l, "@@ ") && i+1 < len(lines) {
						verd[l[3:]] = strings.TrimSpace(lines[i+1])
					}
				}
				mu.Lock()
				defer mu.Unlock()
				var mine []*Obligation
				for _, ob := range fc.obls {
					if ob.Result != nil {
						continue
					}
					v, ok := verd[ob.Name]
					if !ok {
						continue
					}
					if (v == "unsat" && !ob.Cover) || (ob.Cover && (v == "sat" || v == "unknown")) {
						if ob.Cover {
							v = "sat"
						}
						ob.Result = &SolveResult{Verdict: v, Solver: "z3-new(batch)"}
						mine = append(mine, ob)
					}
				}
				for _, ob := range mine {
					ob.Result.TimeS = el / float64(len(mine))
				}
				if !o.keep {
					os.Remove(batch)
				}
			}(c)
		}
		cwg.Wait()
	}
	// stragglers: first attempt for all of them; the longer second attempt (different seed) only when few remain —
	// many undecided obligations mean a real failure, not solver noise
	want := func(ob *Obligation) string {
		if ob.Cover {
			return "sat"
		}
		return "unsat"
	}
	attempt := func(timeoutS, seed int, only map[*Obligation]bool) {
		var wg sync.WaitGroup
		sem := make(chan struct{}, 4)
		for i, ob := range fc.obls {
			if ob.Result != nil && !only[ob] {
				continue
			}
			wg.Add(1)
			go func(i int, ob *Obligation) {
				defer wg.Done()
				sem <- struct{}{}
				defer func() { <-sem }()
				f := fmt.Sprintf("%s.%d.smt2", base, i)
				os.WriteFile(f, []byte(fc.renderOne(ob, true)), 0o644)
				t := timeoutS
				if o.known[ob.Name] && t > 5 {
					// a registered known finding is reported as KNOWN-FINDING whether the solvers say sat, unknown or time out
					// (the quantified prelude rarely lets them produce a model): do not spend the straggler budget on it
					t = 5
				}
				res := raceSolvers(f, t, seed, "")
				if ob.Cover && res.Verdict != "unsat" {
					// vacuity probe: anything but a refutation passes (quantified backgrounds rarely yield models)
					res.Attempts = append(res.Attempts, "cover: not refuted ("+res.Verdict+")")
					res.Verdict = "sat"
				}
				if ob.Result != nil {
					res.Attempts = append(ob.Result.Attempts, res.Attempts...)
				}
				ob.Result = res
				if res.Verdict == want(ob) && !o.keep {
					os.Remove(f)
				} else {
					ob.Result.Raw = strings.TrimSpace(ob.Result.Raw)
					ob.Known = f
				}
			}(i, ob)
		}
		wg.Wait()
	}
	attempt(o.quickS, o.seed, map[*Obligation]bool{})
	undecided := map[*Obligation]bool{}
	for _, ob := range fc.obls {
		if ob.Result != nil && ob.Result.Verdict != want(ob) && ob.Result.Verdict != "sat" && ob.Result.Verdict != "unsat" && !o.known[ob.Name] {
			undecided[ob] = true
		}
	}
	if n := len(undecided); n > 0 && n <= 8 { // was 3: on a loaded machine a heavy function (storage.finalizeTransaction) has 4-6 quick-tier timeouts that all pass in the retry tier
		attempt(o.retryS, o.seed+7919, undecided)
	}
}
