package main

import (
	"go/constant"
	"go/token"
	"go/types"
	"math"

	"golang.org/x/tools/go/ssa"
)

// float64 multiplication by a positive constant, and float64 -> integer conversion (added for C32: base58.Encode sizes its
// buffer with `int(float64(len(b))*1.365658237309761) + 1`).
//
// Only facts that hold for every IEEE rounding of finite values without overflow are assumed (same disclaimer as f64round):
//
//	r = x * c, c a constant with 0 < c <= K, K a power of two:   x >= 0 ==> 0 <= r <= K*x      x <= 0 ==> K*x <= r <= 0
//	    (x*c lies between 0 and K*x, K*x is representable because scaling by a power of two is exact, and rounding is monotone)
//	n = int(r), -2^63 < r < 2^63:                                  n is r truncated toward zero (Go spec); otherwise n is unknown
//	    (out-of-range conversions are implementation-defined, but never panic)
//
// The exact value of the constant is NOT used (walk.go renders float constants with 6 decimals only).
func (fr *Frame) floatMulConst(x *ssa.BinOp, a, b SV) bool {
	if x.Op != token.MUL || !isFloat64T(x.Type()) {
		return false
	}
	cv, other := x.Y, a
	c, ok := cv.(*ssa.Const)
	if !ok {
		cv, other = x.X, b
		if c, ok = cv.(*ssa.Const); !ok {
			return false
		}
	}
	if c.Value == nil {
		return false
	}
	f, _ := constant.Float64Val(c.Value)
	if !(f > 0) || math.IsInf(f, 0) || f > 1e15 {
		return false
	}
	k := int64(1) // the smallest power of two >= max(c, 1)
	for float64(k) < f {
		k *= 2
	}
	fc := fr.fc
	fc.assumes["trusted model: float64 x * c for a constant 0 < c <= K = 2^j lies between 0 and K*x (monotone rounding, finite values); int(f) truncates toward zero for |f| < 2^63"] = true
	K := num(k) + ".0"
	r := fc.fresh(fr.name(x), "Real")
	kx := app("*", K, other.t)
	fc.assume("true", implies(app(">=", other.t, "0.0"), and(app("<=", "0.0", r), app("<=", r, kx))))
	fc.assume("true", implies(app("<=", other.t, "0.0"), and(app("<=", kx, r), app("<=", r, "0.0"))))
	fr.vals[x] = SV{t: r, typ: x.Type()}
	return true
}

// floatToInt models `convert <integer type> <- float64`.
func (fr *Frame) floatToInt(x *ssa.Convert, v SV) bool {
	fb, fok := types.Unalias(x.X.Type()).Underlying().(*types.Basic)
	tb, tok := types.Unalias(x.Type()).Underlying().(*types.Basic)
	if !fok || !tok || fb.Kind() != types.Float64 || tb.Info()&types.IsInteger == 0 {
		return false
	}
	lo, hi, ok := intRange(tb)
	if !ok {
		return false
	}
	fc := fr.fc
	fc.assumes["trusted model: float64 x * c for a constant 0 < c <= K = 2^j lies between 0 and K*x (monotone rounding, finite values); int(f) truncates toward zero for |f| < 2^63"] = true
	n := fc.fresh(fr.name(x), "Int")
	fc.assume("true", and(app("<=", bignum(lo), n), app("<", n, bignum(hi))))
	// truncation toward zero when the truncated value is representable in the target type
	tr := ite(app(">=", v.t, "0.0"), app("to_int", v.t), app("-", app("to_int", app("-", v.t))))
	inRange := and(app("<=", bignum(lo), tr), app("<", tr, bignum(hi)))
	fc.assume("true", implies(inRange, eq(n, tr)))
	fr.vals[x] = SV{t: n, typ: x.Type()}
	return true
}

// mathPowConst models math.Pow(x, y) for CONSTANT arguments whose result is an integer below 2^53 (e.g. math.Pow(10, 8)): the
// result is the value Go's own math.Pow computes at analysis time (the same pure-Go routine the program runs).
func (fr *Frame) mathPowConst(key string, c *ssa.CallCommon) ([]SV, bool) {
	if key != "math.Pow" || len(c.Args) != 2 {
		return nil, false
	}
	cx, ok1 := c.Args[0].(*ssa.Const)
	cy, ok2 := c.Args[1].(*ssa.Const)
	if !ok1 || !ok2 || cx.Value == nil || cy.Value == nil {
		return nil, false
	}
	x, _ := constant.Float64Val(cx.Value)
	y, _ := constant.Float64Val(cy.Value)
	r := math.Pow(x, y)
	if math.IsNaN(r) || math.IsInf(r, 0) || r != math.Trunc(r) || math.Abs(r) >= 9007199254740992 {
		return nil, false
	}
	fr.fc.assumes["trusted model: math.Pow of two constants with an integer result below 2^53 is the value Go's math.Pow computes (evaluated at analysis time)"] = true
	t := num(int64(math.Abs(r))) + ".0"
	if r < 0 {
		t = "(- " + t + ")"
	}
	return []SV{{t: t, typ: types.Typ[types.Float64]}}, true
}
