package main

// visited(k): see README "range over a map". Implemented below.

func (e *SpecEnv) visitedBuiltin(x *ECall) SV {
	e.fail("visited(k) is only meaningful in an invariant of a loop that ranges over a map")
	return SV{}
}
