package main

// `range` over a map with a ghost visited set (C28).
//
// Every `range m` statement owns a ghost set V of keys (heap component "G|v|vis|<range>", sort (Array K Bool); no callee can write it),
// empty when the range statement starts. `next` yields (ok, k, v):
//     ok  ==> has(m, k) && !V[k], and V := V + {k}         (a key of the map that this loop has not produced before)
//     !ok ==> forall k :: has(m, k) ==> V[k]                 (the loop ends only when every key of the map has been produced)
// The two visited facts hold for Go's map iteration as long as the loop does not INSERT into the map: entries that are deleted before
// they are reached are simply not produced (deleting is allowed), but an entry created during the iteration may be produced or
// skipped, and a key that was produced, deleted and inserted again may be produced twice. The facts are therefore only assumed when
// the loop body provably inserts nothing: no map update on a map of that type, and every call in the loop has a contract that is pure
// or has an explicit frame without map contents (syntactic check, insertFree). Otherwise only has(m, k) is known, as before.
//
// In an invariant of such a loop `visited(k)` reads V[k]: the keys produced by the iterations completed so far.

import (
	"fmt"
	"go/types"

	"golang.org/x/tools/go/ssa"
)

func (fr *Frame) visitedKey(r *ssa.Range) (string, string, bool) {
	mt, ok := r.X.Type().Underlying().(*types.Map)
	if !ok {
		return "", "", false
	}
	return "G|v|vis|" + fr.prefix + r.Name(), "(Array " + fr.fc.tc.sortOf(mt.Key()) + " Bool)", true
}

// rangeInit: the visited set of a map range statement starts empty.
func (fr *Frame) rangeInit(r *ssa.Range, st *State) {
	k, s, ok := fr.visitedKey(r)
	if !ok {
		return
	}
	fr.fc.setComp(st, k, s, "((as const "+s+") false)")
}

// mapRangeOfLoop finds the map range statement whose `next` sits in the loop header.
func (fr *Frame) mapRangeOfLoop(li *loopInfo) *ssa.Range {
	for _, in := range li.header.Instrs {
		if nx, ok := in.(*ssa.Next); ok && !nx.IsString {
			if r, ok := nx.Iter.(*ssa.Range); ok {
				return r
			}
		}
	}
	return nil
}

// insertFree: no instruction of the loop that iterates with nx can add a key to a map of type mt.
func (fr *Frame) insertFree(nx *ssa.Next, mt *types.Map) bool {
	fc := fr.fc
	if fr.loops == nil {
		return false
	}
	li := fr.loops[nx.Block()]
	if li == nil {
		return false
	}
	for b := range li.body {
		for _, in := range b.Instrs {
			switch x := in.(type) {
			case *ssa.MapUpdate:
				if types.Identical(x.Map.Type().Underlying(), mt) {
					return false
				}
			case *ssa.Go, *ssa.Defer:
				return false
			case *ssa.Call:
				c := x.Common()
				if _, isB := c.Value.(*ssa.Builtin); isB {
					continue // delete removes; append/copy/len do not touch maps
				}
				var key string
				if c.IsInvoke() {
					key = "(" + shortType(types.TypeString(types.Unalias(c.Value.Type()), nil)) + ")." + c.Method.Name()
				} else if callee := c.StaticCallee(); callee != nil {
					key = funcKey(callee)
				} else {
					return false
				}
				spec := fc.eng.contracts.Funcs[key]
				if spec == nil {
					if fc.eng.knownTotalPure(key) {
						continue
					}
					return false
				}
				if spec.Pure {
					continue
				}
				if !spec.HasMod && !spec.Assume && !spec.Trusted {
					return false // inferred frame: may contain map updates
				}
				for _, m := range spec.Modifies {
					if m.All || (m.Contents && m.Ghost == "") {
						// x[..] may name a map: be conservative unless it is clearly a slice frame ([..cap], [len..cap], [*])
						if m.All || !(m.Cap || m.Tail || m.Whole) {
							return false
						}
					}
				}
			}
		}
	}
	return true
}

// nextVisited adds the visited-set facts of one `next` on a map (see the header comment).
func (fr *Frame) nextVisited(nx *ssa.Next, st *State, g, m, k, ok string, mt *types.Map) {
	fc := fr.fc
	r, isR := nx.Iter.(*ssa.Range)
	if !isR {
		return
	}
	vk, vs, isMap := fr.visitedKey(r)
	if !isMap {
		return
	}
	v := fc.comp(st, vk, vs)
	if fr.insertFree(nx, mt) {
		mh, _ := fc.mapComps(mt)
		row := app("select", fc.comp(st, mh, fc.comps[mh]), m)
		fc.assume(g, implies(ok, not(app("select", v, k))))
		ks := fc.tc.sortOf(mt.Key())
		fc.assume(g, implies(not(ok), fmt.Sprintf("(forall ((vk %s)) (! (=> (select %s vk) (select %s vk)) :pattern ((select %s vk)) :pattern ((select %s vk))))", ks, row, v, row, v)))
		fc.assumes["map iteration: a `range` over a map that the loop does not insert into produces every key at most once and ends only when all keys were produced (visited-set model)"] = true
	} else {
		fc.warn("range over a map at %s: the loop may insert into the map; no visited-set facts", fc.eng.pos(nx.Pos()))
	}
	fc.setComp(st, vk, vs, ite(ok, app("store", v, k, "true"), v))
}

// visitedBuiltin: visited(k) inside an invariant of a loop that ranges over a map.
func (e *SpecEnv) visitedBuiltin(x *ECall) SV {
	if len(x.Args) != 1 || e.visitedKey == "" {
		e.fail("visited(k) is only meaningful in an invariant of a loop that ranges over a map")
	}
	k := e.eval(x.Args[0])
	return SV{t: app("select", e.fc.comp(e.cur, e.visitedKey, e.visitedSort), k.t), typ: boolT}
}

// bindVisited tells the invariant environment which visited set `visited(k)` denotes.
func (fr *Frame) bindVisited(env *SpecEnv, li *loopInfo) {
	if r := fr.mapRangeOfLoop(li); r != nil {
		if k, s, ok := fr.visitedKey(r); ok {
			env.visitedKey, env.visitedSort = k, s
		}
	}
}
