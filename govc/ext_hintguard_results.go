package main

import "strings"

// mentionsResult: the expression names a result of the function (err, result, result<i>, or a named result). A hint
// `A ==> B` gets a guard obligation !A at a return where it cannot be evaluated only if A talks about the OUTCOME of the call
// (e.g. `err == nil ==> …`): then "the hint holds vacuously here" is a meaningful statement about that return. An antecedent
// over parameters only (a side condition such as NoWrap(offset, keys)) says nothing about which return was taken; such a hint
// is skipped at returns where its locals do not exist, as before (with a warning in the evidence).
func mentionsResult(e Expr, named map[string]bool) bool {
	switch v := e.(type) {
	case *EIdent:
		n := v.Name
		return n == "err" || n == "result" || (strings.HasPrefix(n, "result") && len(n) > 6 && n[6] >= '0' && n[6] <= '9') || named[n]
	case *EUnary:
		return mentionsResult(v.X, named)
	case *EBinary:
		return mentionsResult(v.X, named) || mentionsResult(v.Y, named)
	case *ESel:
		return mentionsResult(v.X, named)
	case *EIndex:
		return mentionsResult(v.X, named) || mentionsResult(v.I, named)
	case *ESlice:
		return mentionsResult(v.X, named) || (v.Lo != nil && mentionsResult(v.Lo, named)) || (v.Hi != nil && mentionsResult(v.Hi, named))
	case *ECall:
		for _, a := range v.Args {
			if mentionsResult(a, named) {
				return true
			}
		}
		return mentionsResult(v.Fn, named)
	case *EQuant:
		return mentionsResult(v.Body, named)
	case *EOld:
		return mentionsResult(v.X, named)
	case *ELet:
		return mentionsResult(v.Val, named) || mentionsResult(v.Body, named)
	case *EIte:
		return mentionsResult(v.C, named) || mentionsResult(v.A, named) || mentionsResult(v.B, named)
	}
	return false
}

func (fr *Frame) namedResults() map[string]bool {
	m := map[string]bool{}
	if fr.fn != nil && fr.fn.Signature != nil {
		rs := fr.fn.Signature.Results()
		for i := 0; i < rs.Len(); i++ {
			if n := rs.At(i).Name(); n != "" && n != "_" {
				m[n] = true
			}
		}
	}
	return m
}
