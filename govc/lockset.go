package main

import (
	"fmt"
	"go/token"
	"go/types"
	"strings"

	"golang.org/x/tools/go/ssa"
)

// Syntactic lockset check (clause `lockset <field>` in the contract of a method with receiver r):
//
//	held     the entry block calls r.<field>.Lock() (sync.Mutex / sync.RWMutex, exclusive) and defers r.<field>.Unlock()
//	         before any call into badger; the function contains no other (R)Unlock call, so the mutex is held until return
//	one-txn  the function body performs exactly one of (*badger.DB).Update / View / NewTransaction, i.e. all its
//	         key-value accesses go through a single badger transaction (callees receive that *badger.Txn as a parameter)
//	confined every function literal of the method is used only as the argument of that Update/View call, and the method
//	         starts no goroutine: the closure body runs while the mutex is held
//
// This is a dominator argument on the SSA (the entry block dominates everything), not a proof about schedules: it shows
// that the critical section of the method is the whole badger transaction. Each item becomes an obligation whose
// condition is the constant true/false, so that it shows up in the evidence like any other obligation.
func (eng *Engine) checkLockset(fc *FnCtx, fr *Frame, fn *ssa.Function, spec *FuncSpec) {
	field := strings.TrimSpace(spec.Lockset)
	if field == "" || len(fn.Params) == 0 || len(fn.Blocks) == 0 {
		return
	}
	if locksetIsCounter(fn, field) {
		eng.checkLocksetCounter(fc, fr, fn, spec) // ext_lockset_counter.go: the field is a counter object with an embedded mutex
		return
	}
	if strings.Contains(field, " guards ") {
		// `lockset r.<mutex> guards f1, f2, ...`: mutex-guarded fields of the receiver, no badger involved (ext_crypto.go)
		eng.checkLocksetGuards(fc, fr, fn, spec)
		return
	}
	recv := fn.Params[0]
	isField := func(v ssa.Value) bool {
		// *(&recv.field)
		u, ok := v.(*ssa.UnOp)
		if !ok || u.Op != token.MUL {
			return false
		}
		fa, ok := u.X.(*ssa.FieldAddr)
		if !ok || !isRecvValue(fa.X, recv) {
			return false
		}
		st, ok := derefStructType(recv.Type())
		return ok && fa.Field < st.NumFields() && st.Field(fa.Field).Name() == field
	}
	calleeName := func(c *ssa.CallCommon) string {
		if f := c.StaticCallee(); f != nil {
			return funcKey(f)
		}
		return ""
	}
	isBadger := func(name string) bool { return strings.Contains(name, "github.com/dgraph-io/badger/") }
	isTxnStart := func(name string) bool {
		return strings.HasSuffix(name, "badger/v4.DB).Update") || strings.HasSuffix(name, "badger/v4.DB).View") || strings.HasSuffix(name, "badger/v4.DB).NewTransaction")
	}
	held, deferred, badgerBefore := false, false, false
	for _, in := range fn.Blocks[0].Instrs {
		switch x := in.(type) {
		case *ssa.Call:
			n := calleeName(&x.Call)
			if (n == "(*sync.RWMutex).Lock" || n == "(*sync.Mutex).Lock") && len(x.Call.Args) == 1 && isField(x.Call.Args[0]) {
				held = true
			} else if isBadger(n) && !held {
				badgerBefore = true
			}
		case *ssa.Defer:
			n := calleeName(&x.Call)
			if held && (n == "(*sync.RWMutex).Unlock" || n == "(*sync.Mutex).Unlock") && len(x.Call.Args) == 1 && isField(x.Call.Args[0]) {
				deferred = true
			}
		}
	}
	unlocks, txnStarts, gos := 0, 0, 0
	var txnCall *ssa.Call
	for _, b := range fn.Blocks {
		for _, in := range b.Instrs {
			switch x := in.(type) {
			case *ssa.Call:
				n := calleeName(&x.Call)
				if strings.HasSuffix(n, "Mutex).Unlock") || strings.HasSuffix(n, "Mutex).RUnlock") {
					unlocks++
				}
				if isTxnStart(n) {
					txnStarts++
					txnCall = x
				}
			case *ssa.Go:
				gos++
			}
		}
	}
	confined := gos == 0
	for _, anon := range fn.AnonFuncs {
		used := 0
		for _, b := range fn.Blocks {
			for _, in := range b.Instrs {
				mc, ok := in.(*ssa.MakeClosure)
				if !ok || mc.Fn != anon {
					continue
				}
				used++
				refs := mc.Referrers()
				if refs == nil {
					confined = false
					continue
				}
				for _, r := range *refs {
					if _, isDbg := r.(*ssa.DebugRef); isDbg {
						continue
					}
					if c, ok := r.(*ssa.Call); !ok || c != txnCall {
						confined = false
					}
				}
			}
		}
		if used == 0 {
			confined = false
		}
	}
	b2s := func(b bool) string {
		if b {
			return "true"
		}
		return "false"
	}
	pos := fn.Pos()
	fc.oblige(fr, "lockset", "held", "true", b2s(held && deferred && !badgerBefore && unlocks == 0), pos,
		fmt.Sprintf("entry block: %s.%s.Lock() with deferred Unlock() before any badger call, no other unlock (syntactic)", recv.Name(), field), fr.props())
	fc.oblige(fr, "lockset", "one-txn", "true", b2s(txnStarts == 1), pos, "exactly one badger Update/View/NewTransaction in the method (syntactic)", fr.props())
	fc.oblige(fr, "lockset", "confined", "true", b2s(confined), pos, "function literals are only passed to that Update/View; no goroutine started (syntactic)", fr.props())
}

func derefStructType(t types.Type) (*types.Struct, bool) {
	t = types.Unalias(t)
	if p, ok := t.Underlying().(*types.Pointer); ok {
		t = types.Unalias(p.Elem())
	}
	s, ok := t.Underlying().(*types.Struct)
	return s, ok
}
