package main

// ext_induct.go — three small, additive proof facilities (added for C25, usable everywhere):
//
//   lemma L(a T, n int)
//     induct n            the instance of L at n-1 (same other parameters) is assumed while proving L at n; the extra obligation
//                         lemma:L#induct-wf demands that the requires clauses imply n >= 0, which makes the induction well-founded:
//                         with P(n) := requires(n) ==> ensures(n), the obligations prove P(n-1) ==> P(n) for every integer n and
//                         P(n) for n < 0 (vacuously), hence P(n) for all n.
//     uses L1, L2         the universal closures  forall params :: requires ==> ensures  of the named lemmas are assumed. L1, L2 must
//                         be declared BEFORE this lemma (no cycles), must not be `expectfail`, and must carry every property tag of
//                         the user, so that the same check run proves them.
//     pattern E1, E2      trigger of the closure when the lemma is used (optional; otherwise the solver chooses)
//   func f
//     uses L1, L2         the same closures are assumed at function entry.
//
//   reclimit Name         (top level) unfolds the rec spec function Name only where its applications occur: inside the defining axiom the
//                         recursive call goes to a twin symbol Name_lim, and  Name_lim(x) == Name(x)  is instantiated only for
//                         applications Name(x) that already exist (pattern Name(x)). Without it the solver may keep unfolding
//                         Name(.., n), Name(.., n-1), … for a symbolic n (a matching loop that drowns everything else). Sound: the
//                         axioms are implied by the unlimited definition with Name_lim := Name. Invariants must mention both
//                         Name(.., i) and Name(.., i+1) (they normally do, through the loop-carried index).
//
//   recframe Name         (top level) adds the congruence ("frame") theorem of the rec spec function Name:
//                           (forall k <= n, r :: body[H, a, k, r] == body[H', a', k, r])  ==>  Name(H, a, n) == Name(H', a', n)
//                         where body[.., k, r] is the defining expression with the recursive call replaced by r. It holds by
//                         induction on n for every rec function accepted by recWellFounded; it is what lets a Sum over a slice
//                         survive heap writes (and appends) that leave the summed elements unchanged. Triggered on a pair of
//                         applications with the same last argument.

import (
	"fmt"
	"strings"

	"golang.org/x/tools/go/ssa"
)

var (
	lemmaInduct  = map[*Lemma]string{}
	lemmaUses    = map[*Lemma][]string{}
	lemmaPattern = map[*Lemma][]Expr{}
	funcUses     = map[*FuncSpec][]string{}
	recFramed    = map[string]bool{}
	recSubst     = map[*FnCtx]map[string]string{} // rec function (SMT name) -> term that replaces its applications (frame axiom construction)
	recLimited   = map[string]bool{}
	recRename    = map[*FnCtx]map[string]string{} // rec function (SMT name) -> name used for its recursive calls inside the defining axiom
)

func init() {
	clauseKeywords = append(clauseKeywords, "induct", "uses", "pattern", "recframe", "reclimit")
}

// extClause parses the clauses of this file; called from the default branch of loadFile's clause switch.
func extClause(word, rest, pkg string, cur *FuncSpec, curLemma *Lemma) (bool, error) {
	names := func() []string {
		return strings.FieldsFunc(rest, func(r rune) bool { return r == ',' || r == ' ' || r == '\t' })
	}
	switch word {
	case "induct":
		if curLemma == nil {
			return true, fmt.Errorf("induct outside lemma")
		}
		lemmaInduct[curLemma] = strings.TrimSpace(rest)
	case "uses":
		switch {
		case curLemma != nil:
			lemmaUses[curLemma] = append(lemmaUses[curLemma], names()...)
		case cur != nil:
			funcUses[cur] = append(funcUses[cur], names()...)
		default:
			return true, fmt.Errorf("uses outside func/lemma")
		}
	case "pattern":
		if curLemma == nil {
			return true, fmt.Errorf("pattern outside lemma")
		}
		for _, p := range splitCommaTop(rest) {
			e, err := parseExpr(p)
			if err != nil {
				return true, err
			}
			lemmaPattern[curLemma] = append(lemmaPattern[curLemma], e)
		}
	case "recframe":
		for _, n := range names() {
			recFramed[n] = true
			recFramed[pkg+"."+n] = true
		}
	case "reclimit":
		for _, n := range names() {
			recLimited[pkg+"."+n] = true
		}
	default:
		return false, nil
	}
	return true, nil
}

func (eng *Engine) lemmaIndex(name string) (int, *Lemma) {
	for i, l := range eng.contracts.Lemmas {
		if l.Name == name {
			return i, l
		}
	}
	return -1, nil
}

func hasAll(have, want []string) bool {
	for _, w := range want {
		ok := false
		for _, h := range have {
			if h == w {
				ok = true
			}
		}
		if !ok {
			return false
		}
	}
	return true
}

// lemmaClosure renders  forall params :: wf && requires ==> ensures  of lemma l in the state of env.
func (eng *Engine) lemmaClosure(env *SpecEnv, l *Lemma, tag string) (string, error) {
	fc := env.fc
	n := env.child()
	n.fr = nil
	n.pkg = eng.pkgOfSpec(&FuncSpec{Pkg: l.Pkg})
	n.inQuant++
	var decls, hyps, concl []string
	for _, b := range l.Params {
		t := n.resolveType(b.Type)
		name := fmt.Sprintf("u%s_%s", tag, b.Name)
		n.vars[b.Name] = SV{t: name, typ: t}
		decls = append(decls, fmt.Sprintf("(%s %s)", name, fc.tc.sortOf(t)))
		if !isMathInt(t) {
			hyps = append(hyps, fc.tc.wf(name, t, ""))
		}
	}
	for _, cl := range l.Requires {
		t, err := n.evalBool(cl.E)
		if err != nil {
			return "", err
		}
		hyps = append(hyps, t)
	}
	for _, cl := range l.Ensures {
		t, err := n.evalBool(cl.E)
		if err != nil {
			return "", err
		}
		concl = append(concl, t)
	}
	inner := implies(and(hyps...), and(concl...))
	if len(decls) == 0 {
		return inner, nil
	}
	if ps := lemmaPattern[l]; len(ps) > 0 {
		var ts []string
		for _, p := range ps {
			ts = append(ts, n.eval(p).t)
		}
		pat := ""
		for _, alt := range iteFreePatterns(strings.Join(ts, " ")) {
			pat += " :pattern (" + alt + ")"
		}
		inner = "(! " + inner + pat + ")"
	}
	return fmt.Sprintf("(forall (%s) %s)", strings.Join(decls, " "), inner), nil
}

// assumeUsed assumes the closures of the lemmas named in uses. before: index bound in declaration order (-1: none).
func (eng *Engine) assumeUsed(env *SpecEnv, uses []string, userProps []string, before int, who string) error {
	for k, u := range uses {
		i, l := eng.lemmaIndex(u)
		switch {
		case l == nil:
			return fmt.Errorf("%s uses unknown lemma %s", who, u)
		case before >= 0 && i >= before:
			return fmt.Errorf("%s may only use lemmas declared before it (%s is not)", who, u)
		case l.ExpectFail != "":
			return fmt.Errorf("%s uses lemma %s, which is marked expectfail", who, u)
		case len(l.Props) == 0 || !hasAll(l.Props, userProps):
			return fmt.Errorf("%s uses lemma %s, which does not carry all of its property tags %v (it would not be proved by the same check)", who, u, userProps)
		}
		t, err := eng.lemmaClosure(env, l, fmt.Sprint(k))
		if err != nil {
			return fmt.Errorf("%s uses %s: %v", who, u, err)
		}
		env.fc.assume("true", t)
		env.fc.assumes["uses lemma "+u+" (not an assumption: proved by this check as lemma:"+u+")"] = true
	}
	return nil
}

// extLemmaBefore: used lemmas and the induction hypothesis, assumed before the requires clauses of lemma l.
func (eng *Engine) extLemmaBefore(fc *FnCtx, env *SpecEnv, l *Lemma) error {
	// axioms of the lemma's own package (definitional axioms of its uninterp spec functions) and of the trusted specs hold here
	// exactly as they do at the entry of a verified function (verifyFunc); lemmaCtx did not assume any before
	for _, ax := range eng.contracts.Axioms {
		if ax.Pkg != l.Pkg && !strings.HasSuffix(strings.SplitN(ax.Src, ":", 2)[0], ".spec") {
			continue
		}
		if !axiomInScope(ax, l.Props) {
			continue // property-scoped axioms (`axiom @Cnn`, ext_lemma_axioms.go) stay out of the lemmas of other properties
		}
		aenv := &SpecEnv{fc: fc, vars: map[string]SV{}, cur: env.cur, old: env.old, pkg: eng.pkgOfSpec(&FuncSpec{Pkg: ax.Pkg})}
		t, e := aenv.evalBool(ax.E)
		if e != nil {
			continue // reported where functions are verified
		}
		fc.assumes["axiom: "+ax.Text+" ("+ax.Src+")"] = true
		fc.assume("true", t)
	}
	idx, _ := eng.lemmaIndex(l.Name)
	if err := eng.assumeUsed(env, lemmaUses[l], l.Props, idx, "lemma "+l.Name); err != nil {
		return err
	}
	p := lemmaInduct[l]
	if p == "" {
		return nil
	}
	v, ok := env.vars[p]
	if !ok || fc.tc.sortOfSV(v) != "Int" {
		return fmt.Errorf("induct %s: not an integer parameter of lemma %s", p, l.Name)
	}
	n := env.child()
	n.vars[p] = SV{t: "(- " + v.t + " 1)", typ: v.typ}
	var hyps, concl []string
	if !isMathInt(v.typ) {
		hyps = append(hyps, fc.tc.wf(n.vars[p].t, v.typ, ""))
	}
	for _, cl := range l.Requires {
		t, err := n.evalBool(cl.E)
		if err != nil {
			return err
		}
		hyps = append(hyps, t)
	}
	for _, cl := range l.Ensures {
		t, err := n.evalBool(cl.E)
		if err != nil {
			return err
		}
		concl = append(concl, t)
	}
	fc.assume("true", implies(and(hyps...), and(concl...)))
	return nil
}

// extLemmaAfterRequires: the well-foundedness obligation of `induct`.
func (eng *Engine) extLemmaAfterRequires(fc *FnCtx, env *SpecEnv, l *Lemma) {
	p := lemmaInduct[l]
	if p == "" {
		return
	}
	ob := &Obligation{Name: "lemma:" + l.Name + "#induct-wf", Kind: "lemma", Func: "lemma:" + l.Name, Guard: "true",
		Cond: "(>= " + env.vars[p].t + " 0)", Text: "requires ==> " + p + " >= 0 (induction on " + p + " is well-founded)", Props: l.Props, Pos: l.Src}
	fc.script = append(fc.script, Item{ob: ob})
	fc.obls = append(fc.obls, ob)
}

// extFuncUses: closures of the lemmas a function contract `uses`, assumed in the entry state.
func (eng *Engine) extFuncUses(fc *FnCtx, env *SpecEnv, spec *FuncSpec) {
	if spec == nil || len(funcUses[spec]) == 0 {
		return
	}
	if err := eng.assumeUsed(env, funcUses[spec], spec.Props, -1, spec.Key); err != nil {
		eng.staleErrs = append(eng.staleErrs, "contract-stale: "+err.Error())
	}
}

// extRecFrame appends the congruence theorem of a `recframe`d rec function to its defining axiom (see the header comment).
func (e *SpecEnv) extRecFrame(sf *SpecFn, n *SpecEnv, name string, comps []string, retSort string) {
	fc := e.fc
	if !recFramed[sf.Pkg+"."+sf.Name] {
		return
	}
	if recSubst[fc] == nil {
		recSubst[fc] = map[string]string{}
	}
	recSubst[fc][name] = "xr"
	defer delete(recSubst[fc], name)
	var decls []string
	side := func(tag string) (body string, call string) {
		st := &State{heap: map[string]string{}}
		var hs, as []string
		for _, k := range comps {
			hn := "f" + tag + "_" + mangle(k)
			st.heap[k] = hn
			decls = append(decls, "("+hn+" "+fc.comps[k]+")")
			hs = append(hs, hn)
		}
		probe := *n
		probe.cur, probe.old = st, st
		probe.vars = map[string]SV{}
		for i, b := range sf.Params {
			t := n.resolveType(b.Type)
			an := fmt.Sprintf("x%s%d", tag, i)
			if i == len(sf.Params)-1 {
				probe.vars[b.Name] = SV{t: "xk", typ: t}
				as = append(as, "xn")
				continue
			}
			probe.vars[b.Name] = SV{t: an, typ: t}
			decls = append(decls, "("+an+" "+fc.tc.sortOf(t)+")")
			as = append(as, an)
		}
		return probe.eval(sf.Body).t, app(name, append(hs, as...)...)
	}
	bodyA, callA := side("a")
	bodyB, callB := side("b")
	// the two applications may spell their (equal) last arguments differently (i+1 vs. a wrapped addition): match any pair and
	// require the equality, instead of relying on the e-graph to have merged the two index terms
	// trigger: a pair of applications with the SAME last argument (E-matching is modulo the congruence closure, which the
	// arithmetic solver feeds with the equalities of shared index terms). Matching ANY pair (n == m as a hypothesis) was tried:
	// it doubles the cost of every check of a function with several heap versions and is not needed.
	decls = append(decls, "(xn Int)")
	ax := fmt.Sprintf("(assert (forall (%s) (! (=> (forall ((xk Int) (xr %s)) (=> (<= xk xn) (= %s %s))) (= %s %s)) :pattern (%s %s))))",
		strings.Join(decls, " "), retSort, bodyA, bodyB, callA, callB, callA, callB)
	fc.ufAxioms[name] += "\n" + ax
	fc.assumes["rec spec "+sf.Pkg+"."+sf.Name+": congruence (frame) theorem, by induction on its last parameter"] = true
}

// extRecLimitBegin / extRecLimitEnd bracket the evaluation of the defining axiom of a `reclimit`ed rec function (see the header).
func (e *SpecEnv) extRecLimitBegin(sf *SpecFn, name string, sorts []string, retSort string) {
	fc := e.fc
	if !recLimited[sf.Pkg+"."+sf.Name] {
		return
	}
	fc.eng.declareUF(fc, name+"_lim", sorts, retSort) // declared before name: the axiom rendered after name's declaration mentions it
	if recRename[fc] == nil {
		recRename[fc] = map[string]string{}
	}
	recRename[fc][name] = name + "_lim"
}

func (e *SpecEnv) extRecLimitEnd(sf *SpecFn, name, decls, call string) {
	fc := e.fc
	if !recLimited[sf.Pkg+"."+sf.Name] {
		return
	}
	delete(recRename[fc], name)
	lim := "(" + name + "_lim" + strings.TrimPrefix(call, "("+name)
	fc.ufAxioms[name] += fmt.Sprintf("\n(assert (forall (%s) (! (= %s %s) :pattern (%s))))", decls, lim, call, call)
}

// extInitGuard: builtin initguard() — the value of the package's `init$guard` flag (false until the synthetic package initializer
// has started). A contract on the package initializer  `func init … ensures !old(initguard()) ==> E`  checks the initial values of
// package-level variables against their initializer expressions, which justifies an `axiom E` about variables that are assigned
// nowhere else.
func (e *SpecEnv) extInitGuard() SV {
	if e.pkg == nil {
		e.fail("initguard(): no package")
	}
	sp := e.fc.eng.prog.Package(e.pkg)
	if sp == nil {
		e.fail("initguard(): no ssa package for %s", e.pkg.Path())
	}
	g, ok := sp.Members["init$guard"].(*ssa.Global)
	if !ok {
		e.fail("initguard(): package %s has no init$guard", e.pkg.Path())
	}
	return SV{t: e.fc.load(e.cur, e.fc.globalAddr(g), boolT), typ: boolT}
}
