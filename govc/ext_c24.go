package main

// C24 additions: delete-only map frames (`modifies m[-]`), used together with the map-range visited-set model of ext_crypto.go.

import (
	"fmt"
	"go/types"

	"golang.org/x/tools/go/ssa"
)

// ───────────── modifies m[-]: delete-only map frames ─────────────
// `modifies m[-]` says the function may delete entries of map m but never adds or changes one. At call sites the map's entries become
// unknown like for m[..] and deleteOnlyCond is assumed; when the function itself is verified the same condition is an obligation at every
// return (kind post, label delete-only:<text>), and m counts as a map whose contents may change for the frame check. A callee with such a
// frame does not insert, so a loop that ranges over m and calls it keeps its visited-set facts (insertFree).

// deleteOnlyCond: (rows of one map) new keys ⊆ old keys, surviving values unchanged, length not larger.
// wfk: the typing invariant of the quantified key `dk` (map keys are well-typed values; quantified spec variables carry the same guard).
func deleteOnlyCond(ks, wfk, oldH, oldV, newH, newV, oldL, newL string) string {
	return and(fmt.Sprintf("(forall ((dk %s)) (! (=> (and %s (select %s dk)) (and (select %s dk) (= (select %s dk) (select %s dk)))) :pattern ((select %s dk)) :pattern ((select %s dk))))",
		ks, wfk, newH, oldH, newV, oldV, newH, newV), app("<=", newL, oldL))
}

// checkDeleteOnly emits the delete-only obligations of the function's own contract at a return.
func (fr *Frame) checkDeleteOnly(st *State, g string, ret *ssa.Return) {
	if !fr.top || fr.spec == nil || fr.spec.Assume || fr.spec.NoFrame {
		return // noframe: the whole modifies clause, including its delete-only part, is assumed
	}
	fc := fr.fc
	for _, m := range fr.spec.Modifies {
		if !m.DelOnly {
			continue
		}
		env := fr.specEnv(fr.entry, fr.entry)
		v := env.evalSafe(m.E)
		if v == nil {
			fc.eng.stale(fr.spec, Clause{Text: m.Text, Src: fr.spec.Src}, fmt.Errorf("cannot evaluate modifies target"))
			continue
		}
		mt, ok := types.Unalias(v.typ).Underlying().(*types.Map)
		if !ok {
			fc.eng.stale(fr.spec, Clause{Text: m.Text, Src: fr.spec.Src}, fmt.Errorf("modifies m[-] needs a map"))
			continue
		}
		mh, mv := fc.mapComps(mt)
		row := func(s *State, k string) string { return app("select", fc.comp(s, k, fc.comps[k]), v.t) }
		c := deleteOnlyCond(fc.tc.sortOf(mt.Key()), fc.tc.wf("dk", mt.Key(), ""), row(fr.entry, mh), row(fr.entry, mv), row(st, mh), row(st, mv), row(fr.entry, "ML"), row(st, "ML"))
		fc.oblige(fr, "post", "delete-only:"+m.Text, g, implies(not(eq(v.t, nilPtr)), c), ret.Pos(), "entries of "+m.Text+" are only deleted (modifies m[-])", fr.props())
	}
}
