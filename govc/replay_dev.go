package main

import (
	"fmt"
	"path/filepath"
	"strings"
)

// replayCandidate: an obligation the solvers answered `unknown` (typically: incomplete quantifier reasoning over background
// axioms) usually still has a candidate model; replaying it is sound because only the run of the real code counts.
func replayCandidate(ob *Obligation) bool {
	return !ob.Cover && ob.Result != nil && (ob.Result.Verdict == "unknown" || ob.Result.Verdict == "timeout")
}

// devReplayOne (govc -func <key> -replayob <name>): replay one obligation without solving the function first.
func devReplayOne(eng *Engine, fc *FnCtx, name, repo, outDir string) {
	for _, ob := range fc.obls {
		if ob.Cover || !(ob.Name == name || strings.HasSuffix(ob.Name, name)) {
			continue
		}
		ob.Result = &SolveResult{Verdict: "unknown", Solver: "none (replay only)"}
		replayFc[ob] = fc
		path := filepath.Join(outDir, "replay-"+mangle(ob.Name)+".json")
		ok := writeReplay(path, "dev", ob, eng, repo, outDir)
		suffix := ""
		if !ok {
			suffix = " no-failing-input-found"
		}
		fmt.Printf("REPLAY replay=%s obligation=%s%s\n", path, ob.Name, suffix)
		return
	}
	fmt.Println("no obligation named", name)
}

// devReplay (govc -func <key> -replay): replays the failed obligations of one function exactly as `govc check` would,
// writing the replay records next to the SMT files.
func devReplay(eng *Engine, fc *FnCtx, repo, outDir string) {
	for _, ob := range fc.obls {
		if ob.Cover || ob.Result == nil || (ob.Result.Verdict != "sat" && !replayCandidate(ob)) {
			continue
		}
		replayFc[ob] = fc
		path := filepath.Join(outDir, "replay-"+mangle(ob.Name)+".json")
		ok := writeReplay(path, "dev", ob, eng, repo, outDir)
		suffix := ""
		if !ok {
			suffix = " no-failing-input-found"
		}
		fmt.Printf("REPLAY replay=%s obligation=%s%s\n", path, ob.Name, suffix)
	}
}
