package main

// Propagation of specified panics (added for C32).
//
// A callee contract `panics when E` means: the call panics exactly when E holds. Until now every caller had to prove !E
// (obligation pre:<callee>:nopanicK). That is too strong for a caller that itself documents the panic, e.g.
//
//	func DeriveGhostPublicKey(r, A, B *Key, i uint64) *Key      panics when !ValidPoint(*A) || ...
//	    x := HashScalar(KeyMultPubPriv(A, r), i)                 KeyMultPubPriv panics when !ValidPoint(*pub) || ...
//
// where the callee's panic simply propagates. A panic raised inside a callee IS a panic of the caller's body, so it is subject
// to the caller's own panic specification: if the function under verification has `panics when` clauses, the obligation at
// the call site becomes  E ==> (the caller's documented panic condition, evaluated in its entry state)  -- the same
// `panic-spec` obligation an explicit panic() statement of the body gets -- and execution continues under !E. The caller's
// `panic-iff` obligation at its returns (normal return only outside the documented condition) is unchanged.
// Callers without `panics when` clauses (including `maypanic` ones), and frames inlined into another function, keep the old
// obligation (!E must be proved), so no existing obligation changes unless it was of the form above, and then the new
// obligation is implied by the old one.
//
// panicPropagation: cond is the callee's panic condition at the call site (SMT term, true = the callee panics). If the rule
// applies, the obligation to emit (kind panic-spec) is returned with ok == true.
func (fr *Frame) panicPropagation(cond string) (oblig string, ok bool) {
	if !fr.top || fr.spec == nil || fr.spec.MayPanic {
		return "", false
	}
	if len(fr.spec.PanicsWhen) == 0 || len(fr.panicsWhenOld) != len(fr.spec.PanicsWhen) {
		return "", false
	}
	return implies(cond, or(fr.panicsWhenOld...)), true
}
