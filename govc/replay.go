package main

import (
	"bytes"
	"context"
	"encoding/json"
	"fmt"
	"os"
	"os/exec"
	"path/filepath"
	"time"
)

// tryReplay turns a solver model into a test against the real function where a template exists.
func tryReplay(eng *Engine, ob *Obligation, model, repo, verif string) (bool, map[string]any) {
	tmpl := replayTemplates[ob.Func]
	if tmpl == nil {
		return genericReplay(eng, ob, repo, verif) // replay_run.go: generic model -> test generator
	}
	pkg, src, err := tmpl(ob, model)
	if err != nil {
		return false, map[string]any{"note": "model could not be turned into an input: " + err.Error()}
	}
	failed, out := runOverlayTest(repo, pkg, src, "TestGovcReplay")
	return failed, map[string]any{"package": pkg, "test_source": src, "test_output": truncate(out, 8000), "real_code_fails": failed}
}

var replayTemplates = map[string]func(ob *Obligation, model string) (pkg, src string, err error){}

// runOverlayTest injects zz_govc_replay_test.go into the package with -overlay and runs it. Returns (testFailed, output).
func runOverlayTest(repo, pkg, src, run string) (bool, string) {
	dir, err := os.MkdirTemp("", "govc-replay")
	if err != nil {
		return false, err.Error()
	}
	defer os.RemoveAll(dir)
	testFile := filepath.Join(dir, "zz_govc_replay_test.go")
	os.WriteFile(testFile, []byte(src), 0o644)
	ov := map[string]any{"Replace": map[string]string{filepath.Join(repo, pkg, "zz_govc_replay_test.go"): testFile}}
	ovData, _ := json.Marshal(ov)
	ovFile := filepath.Join(dir, "ov.json")
	os.WriteFile(ovFile, ovData, 0o644)
	ctx, cancel := context.WithTimeout(context.Background(), 180*time.Second)
	defer cancel()
	cmd := exec.CommandContext(ctx, "bash", "-c", fmt.Sprintf("ulimit -v 8000000; cd %s && go1.26.8 test -mod=vendor -overlay %s -vet=off -count=1 -timeout 60s -run '^%s$' ./%s", repo, ovFile, run, pkg))
	cmd.Env = append(os.Environ(), "GOFLAGS=-mod=vendor", "GOTOOLCHAIN=local", "GOPROXY=off", "GOSUMDB=off")
	var out bytes.Buffer
	cmd.Stdout = &out
	cmd.Stderr = &out
	err = cmd.Run()
	return err != nil, out.String()
}
