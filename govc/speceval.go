package main

import (
	"fmt"
	"go/constant"
	"go/types"
	"math/big"
	"strconv"
	"strings"

	"golang.org/x/tools/go/ssa"
)

type SpecEnv struct {
	fc    *FnCtx
	fr    *Frame
	vars  map[string]SV
	cur   *State
	old   *State
	pkg   *types.Package
	depth int
	inQuant int
	guard string
	results []SV
	loopEntry *State // set while a loop invariant is evaluated: the state on entry to that loop (builtin loopentry(E))
	visitedKey, visitedSort string // set while an invariant of a map-range loop is evaluated: its visited-set component (ext_maprange.go)
	fvAddr map[string]SV // call sites of closure contracts: addresses of the captured variables (so that `modifies v` can name one)
}

type specErr struct{ msg string }

func (e *SpecEnv) fail(format string, args ...any) {
	panic(specErr{fmt.Sprintf(format, args...)})
}

var boolT = types.Typ[types.Bool]

func (e *SpecEnv) child() *SpecEnv {
	n := *e
	n.vars = map[string]SV{}
	for k, v := range e.vars {
		n.vars[k] = v
	}
	return &n
}

// evalBool evaluates a clause to a Bool term; errors are reported as contract-stale.
func (e *SpecEnv) evalBool(x Expr) (term string, err error) {
	defer func() {
		if r := recover(); r != nil {
			if se, ok := r.(specErr); ok {
				err = fmt.Errorf("%s", se.msg)
				return
			}
			panic(r)
		}
	}()
	v := e.eval(x)
	if e.fc.tc.sortOfSV(v) != "Bool" {
		return "", fmt.Errorf("clause is not boolean: %s", exprString(x))
	}
	return v.t, nil
}

func (tc *TypeCtx) sortOfSV(v SV) string {
	if v.typ == nil {
		return "?"
	}
	return tc.sortOf(v.typ)
}

func (e *SpecEnv) lookupPkg(name string) *types.Package {
	if e.pkg != nil {
		if e.pkg.Name() == name {
			return e.pkg
		}
		for _, imp := range e.pkg.Imports() {
			if imp.Name() == name {
				return imp
			}
		}
	}
	for _, p := range e.fc.eng.prog.AllPackages() {
		if p.Pkg.Name() == name && strings.HasPrefix(p.Pkg.Path(), modPrefix) {
			return p.Pkg
		}
	}
	for _, p := range e.fc.eng.prog.AllPackages() {
		if p.Pkg.Name() == name && !strings.Contains(p.Pkg.Path(), ".") {
			return p.Pkg
		}
	}
	// last resort: any loaded package of that name (a third-party dependency that the contract's package does not import,
	// e.g. `badger.ErrKeyNotFound` mentioned in a contract of package common)
	for _, p := range e.fc.eng.prog.AllPackages() {
		if p.Pkg.Name() == name {
			return p.Pkg
		}
	}
	return nil
}

func (e *SpecEnv) resolveType(s string) types.Type {
	switch {
	case s == "byteslice":
		// the type []byte where only an identifier can be written: typeis(x, byteslice), unbox(x, byteslice) (ext_c09.go)
		return types.NewSlice(types.Universe.Lookup("byte").Type()) // prints as []byte, like the type assertions in the code (tagOf keys by type string)
	case strings.HasPrefix(s, "map["):
		// map[K]V (C05: spec functions over map-typed parameters)
		d, j := 0, -1
		for i := 3; i < len(s) && j < 0; i++ {
			switch s[i] {
			case '[':
				d++
			case ']':
				d--
				if d == 0 {
					j = i
				}
			}
		}
		if j < 0 {
			e.fail("bad map type %s", s)
		}
		return types.NewMap(e.resolveType(s[4:j]), e.resolveType(s[j+1:]))
	case strings.HasPrefix(s, "*"):
		return types.NewPointer(e.resolveType(s[1:]))
	case strings.HasPrefix(s, "map["):
		// map[K]V (K without nested brackets)
		if i := strings.Index(s, "]"); i > 4 {
			return types.NewMap(e.resolveType(s[4:i]), e.resolveType(s[i+1:]))
		}
	case strings.HasPrefix(s, "[]"):
		return types.NewSlice(e.resolveType(s[2:]))
	case strings.HasPrefix(s, "["):
		i := strings.Index(s, "]")
		n, _ := strconv.Atoi(s[1:i])
		return types.NewArray(e.resolveType(s[i+1:]), int64(n))
	}
	switch s {
	case "int":
		return types.Typ[types.Int]
	case "mathint":
		return mathInt
	case "bool":
		return boolT
	case "byte":
		return types.Typ[types.Uint8]
	case "string":
		return types.Typ[types.String]
	case "error":
		return types.Universe.Lookup("error").Type()
	}
	if o := types.Universe.Lookup(s); o != nil {
		if tn, ok := o.(*types.TypeName); ok {
			return tn.Type()
		}
	}
	if i := strings.Index(s, "."); i >= 0 {
		p := e.lookupPkg(s[:i])
		if p == nil {
			e.fail("unknown package %s", s[:i])
		}
		o := p.Scope().Lookup(s[i+1:])
		if tn, ok := o.(*types.TypeName); ok {
			return tn.Type()
		}
		e.fail("unknown type %s", s)
	}
	if e.pkg != nil {
		if tn, ok := e.pkg.Scope().Lookup(s).(*types.TypeName); ok {
			return tn.Type()
		}
	}
	e.fail("unknown type %s", s)
	return nil
}

func constSV(tc *TypeCtx, c *types.Const) SV {
	v := c.Val()
	switch v.Kind() {
	case constant.Bool:
		if constant.BoolVal(v) {
			return SV{t: "true", typ: boolT}
		}
		return SV{t: "false", typ: boolT}
	case constant.Int:
		s := v.ExactString()
		if strings.HasPrefix(s, "-") {
			s = "(- " + s[1:] + ")"
		}
		return SV{t: s, typ: mathInt}
	case constant.String:
		return SV{t: tc.strConst(constant.StringVal(v)), typ: types.Typ[types.String]}
	case constant.Float:
		if i := constant.ToInt(v); i.Kind() == constant.Int {
			return SV{t: i.ExactString(), typ: mathInt}
		}
	}
	return SV{t: "0", typ: mathInt}
}

func (e *SpecEnv) eval(x Expr) SV {
	fc := e.fc
	tc := fc.tc
	switch x := x.(type) {
	case *ENum:
		n, ok := new(big.Int).SetString(x.Val, 0)
		if !ok {
			e.fail("bad number %s", x.Val)
		}
		return SV{t: bignum(n), typ: mathInt}
	case *EStr:
		return SV{t: tc.strConst(x.Val), typ: types.Typ[types.String]}
	case *EIdent:
		if v, ok := e.vars[x.Name]; ok {
			return v
		}
		switch x.Name {
		case "true", "false":
			return SV{t: x.Name, typ: boolT}
		case "nil":
			return SV{t: nilPtr, typ: types.Typ[types.UntypedNil]}
		}
		if e.fr != nil {
			if v, ok := e.fr.lookupLocal(x.Name, e.cur); ok {
				return v
			}
		}
		if e.pkg != nil {
			switch o := e.pkg.Scope().Lookup(x.Name).(type) {
			case *types.Const:
				return constSV(tc, o)
			case *types.Var:
				return e.loadGlobal(e.pkg, o)
			}
		}
		e.fail("unknown identifier %s", x.Name)
	case *EOld:
		n := *e
		if e.old != nil {
			n.cur = e.old
		}
		// old() of a parameter name refers to its entry value
		if e.fr != nil {
			n.vars = map[string]SV{}
			for k, v := range e.vars {
				n.vars[k] = v
			}
			for k, v := range e.fr.oldVars {
				n.vars[k] = v
			}
		}
		return n.eval(x.X)
	case *EUnary:
		switch x.Op {
		case "!":
			return SV{t: not(e.eval(x.X).t), typ: boolT}
		case "-":
			return SV{t: app("-", e.eval(x.X).t), typ: mathInt}
		case "*":
			p := e.eval(x.X)
			pt, ok := types.Unalias(p.typ).Underlying().(*types.Pointer)
			if !ok {
				e.fail("deref of non-pointer %s", exprString(x.X))
			}
			return SV{t: fc.load(e.cur, p.t, pt.Elem()), typ: pt.Elem()}
		case "&":
			a, t, ok := e.evalAddr(x.X)
			if !ok {
				e.fail("cannot take address of %s", exprString(x.X))
			}
			return SV{t: a, typ: types.NewPointer(t)}
		}
	case *EIte:
		c := e.eval(x.C)
		a, b := e.eval(x.A), e.eval(x.B)
		a, b = e.unify(a, b)
		return SV{t: ite(c.t, a.t, b.t), typ: a.typ}
	case *ELet:
		v := e.eval(x.Val)
		n := e.child()
		n.vars[x.Name] = v
		return n.eval(x.Body)
	case *EBinary:
		return e.evalBinary(x)
	case *EQuant:
		n := e.child()
		n.inQuant++
		var decls, wfs []string
		for _, b := range x.Vars {
			t := n.resolveType(b.Type)
			name := "q_" + b.Name
			if e.inQuant > 0 {
				name = fmt.Sprintf("q%d_%s", e.inQuant, b.Name)
			}
			n.vars[b.Name] = SV{t: name, typ: t}
			decls = append(decls, fmt.Sprintf("(%s %s)", name, tc.sortOf(t)))
			if bt, isB := t.(*types.Basic); !isMathInt(t) && !(isB && bt.Kind() == types.Int) {
				wfs = append(wfs, tc.wf(name, t, ""))
			}
		}
		body := n.eval(x.Body)
		if tc.sortOfSV(body) != "Bool" {
			e.fail("quantifier body not boolean")
		}
		pat := ""
		if len(x.Trig) > 0 {
			for _, tr := range x.Trig {
				var ts []string
				for _, t := range tr {
					ts = append(ts, n.eval(t).t)
				}
				// SMT patterns must not contain ite (a load through a pointer of unknown shape is one): offer one
				// alternative pattern per branch combination instead
				for _, alt := range iteFreePatterns(strings.Join(ts, " ")) {
					pat += " :pattern (" + alt + ")"
				}
			}
		}
		q, inner := "forall", implies(and(wfs...), body.t)
		if !x.Forall {
			q, inner = "exists", and(and(wfs...), body.t)
		}
		if pat != "" {
			inner = "(! " + inner + pat + ")"
		}
		return SV{t: fmt.Sprintf("(%s (%s) %s)", q, strings.Join(decls, " "), inner), typ: boolT}
	case *ESel:
		// package-qualified name?
		if id, ok := x.X.(*EIdent); ok {
			if _, isVar := e.vars[id.Name]; !isVar {
				if e.fr == nil || !e.fr.hasLocal(id.Name) {
					if p := e.lookupPkg(id.Name); p != nil && (e.pkg == nil || e.pkg.Scope().Lookup(id.Name) == nil) {
						switch o := p.Scope().Lookup(x.Name).(type) {
						case *types.Const:
							return constSV(tc, o)
						case *types.Var:
							return e.loadGlobal(p, o)
						}
						e.fail("unknown %s.%s", id.Name, x.Name)
					}
				}
			}
		}
		if a, t, ok := e.evalAddr(x); ok {
			return SV{t: fc.load(e.cur, a, t), typ: t}
		}
		v := e.eval(x.X)
		return e.selectValue(v, x.Name)
	case *EIndex:
		if a, t, ok := e.evalAddr(x); ok {
			return SV{t: fc.load(e.cur, a, t), typ: t}
		}
		v := e.eval(x.X)
		i := e.eval(x.I)
		switch u := types.Unalias(v.typ).Underlying().(type) {
		case *types.Array:
			return SV{t: app("select", v.t, i.t), typ: u.Elem()}
		case *types.Map:
			_, mv := fc.mapComps(u)
			return SV{t: app("select", app("select", fc.comp(e.cur, mv, fc.comps[mv]), v.t), i.t), typ: u.Elem()}
		case *types.Basic:
			if u.Info()&types.IsString != 0 {
				return SV{t: app("strat", v.t, i.t), typ: types.Typ[types.Uint8]}
			}
		}
		e.fail("cannot index %s", exprString(x.X))
	case *ESlice:
		v := e.eval(x.X)
		lo, hi := "0", ""
		if x.Lo != nil {
			lo = e.eval(x.Lo).t
		}
		switch u := types.Unalias(v.typ).Underlying().(type) {
		case *types.Slice:
			if x.Hi != nil {
				hi = e.eval(x.Hi).t
			} else {
				hi = slen(v.t)
			}
			return SV{t: mkSlice(sarr(v.t), plus(soff(v.t), lo), minus(hi, lo), minus(scap(v.t), lo)), typ: v.typ}
		case *types.Basic:
			if x.Hi != nil {
				hi = e.eval(x.Hi).t
			} else {
				hi = app("strlen", v.t)
			}
			return SV{t: app("strsub", v.t, lo, hi), typ: v.typ}
		default:
			_ = u
		}
		e.fail("cannot slice %s", exprString(x.X))
	case *ECall:
		return e.evalCall(x)
	}
	e.fail("cannot evaluate %s", exprString(x))
	return SV{}
}

func (e *SpecEnv) loadGlobal(p *types.Package, o *types.Var) SV {
	sp := e.fc.eng.prog.Package(p)
	if sp == nil {
		e.fail("no ssa package for %s", p.Path())
	}
	g, ok := sp.Members[o.Name()].(*ssa.Global)
	if !ok {
		e.fail("no global %s", o.Name())
	}
	t := e.fc.load(e.cur, e.fc.globalAddr(g), o.Type())
	// typing invariant of the loaded global (ground fact, e.g. io.EOF is older than anything allocated later)
	e.fc.assume("true", e.fc.tc.wf(t, o.Type(), e.fc.watermark(e.cur)))
	return SV{t: t, typ: o.Type()}
}

func derefStruct(t types.Type) (types.Type, bool) {
	t = types.Unalias(t)
	if p, ok := t.Underlying().(*types.Pointer); ok {
		return p.Elem(), true
	}
	return t, false
}

// fieldPath finds the (possibly promoted) field name in struct type t.
func fieldPath(t types.Type, pkg *types.Package, name string) ([]int, *types.Var) {
	obj, idx, _ := types.LookupFieldOrMethod(t, true, pkg, name)
	if v, ok := obj.(*types.Var); ok && v.IsField() {
		return idx, v
	}
	// unexported field of another package: search manually
	var search func(t types.Type, depth int) ([]int, *types.Var)
	search = func(t types.Type, depth int) ([]int, *types.Var) {
		if depth > 4 {
			return nil, nil
		}
		if p, ok := types.Unalias(t).Underlying().(*types.Pointer); ok {
			t = p.Elem()
		}
		s, ok := types.Unalias(t).Underlying().(*types.Struct)
		if !ok {
			return nil, nil
		}
		for i := 0; i < s.NumFields(); i++ {
			if s.Field(i).Name() == name {
				return []int{i}, s.Field(i)
			}
		}
		for i := 0; i < s.NumFields(); i++ {
			if s.Field(i).Embedded() {
				if p, v := search(s.Field(i).Type(), depth+1); v != nil {
					return append([]int{i}, p...), v
				}
			}
		}
		return nil, nil
	}
	return search(t, 0)
}

// evalAddr evaluates an lvalue expression to (address, type).
func (e *SpecEnv) evalAddr(x Expr) (string, types.Type, bool) {
	fc := e.fc
	switch x := x.(type) {
	case *EIdent:
		if e.fr != nil {
			if a, t, ok := e.fr.lookupLocalAddr(x.Name); ok {
				return a, t, true
			}
		}
		// a captured variable of a closure is an lvalue: its cell is the binding (ext_kviter.go)
		if a, ok := e.fvAddr[x.Name]; ok {
			return a.t, a.typ, true
		}
		if e.fr != nil {
			if a, t, ok := e.fr.freeVarAddr(x.Name); ok {
				return a, t, true
			}
		}
		return "", nil, false
	case *EUnary:
		if x.Op == "*" {
			p := e.eval(x.X)
			if pt, ok := types.Unalias(p.typ).Underlying().(*types.Pointer); ok {
				return p.t, pt.Elem(), true
			}
		}
		return "", nil, false
	case *ESel:
		if id, ok := x.X.(*EIdent); ok {
			if _, isVar := e.vars[id.Name]; !isVar && (e.fr == nil || !e.fr.hasLocal(id.Name)) && e.lookupPkg(id.Name) != nil && (e.pkg == nil || e.pkg.Scope().Lookup(id.Name) == nil) {
				return "", nil, false
			}
		}
		var base string
		var bt types.Type
		if a, t, ok := e.evalAddr(x.X); ok {
			// x.X is an lvalue of type t; if t is a pointer, load it
			if pt, isPtr := types.Unalias(t).Underlying().(*types.Pointer); isPtr {
				base, bt = fc.load(e.cur, a, t), pt.Elem()
			} else {
				base, bt = a, t
			}
		} else {
			v := e.eval(x.X)
			pt, isPtr := types.Unalias(v.typ).Underlying().(*types.Pointer)
			if !isPtr {
				return "", nil, false
			}
			base, bt = v.t, pt.Elem()
		}
		if !isStructT(bt) {
			return "", nil, false
		}
		path, fv := fieldPath(bt, e.pkg, x.Name)
		if fv == nil {
			e.fail("no field %s in %s", x.Name, bt)
		}
		cur, ct := base, bt
		for _, i := range path {
			if pt, isPtr := types.Unalias(ct).Underlying().(*types.Pointer); isPtr {
				cur, ct = fc.load(e.cur, cur, ct), pt.Elem()
			}
			st := types.Unalias(ct).Underlying().(*types.Struct)
			cur = mkFld(cur, fc.tc.fieldKey(ct, i))
			ct = st.Field(i).Type()
		}
		return cur, ct, true
	case *EIndex:
		v, ok := SV{}, false
		var arrAddr string
		var at types.Type
		if a, t, isL := e.evalAddr(x.X); isL {
			at = t
			if _, isArr := isArrayT(t); isArr {
				arrAddr = a
				ok = true
			} else {
				v = SV{t: fc.load(e.cur, a, t), typ: t}
			}
		} else {
			v = e.eval(x.X)
			at = v.typ
		}
		i := e.eval(x.I)
		if ok {
			arr, _ := isArrayT(at)
			return mkElemOrB(arrAddr, i.t), arr.Elem(), true
		}
		switch u := types.Unalias(at).Underlying().(type) {
		case *types.Slice:
			return mkElem(sarr(v.t), idx(soff(v.t), i.t)), u.Elem(), true
		case *types.Pointer:
			if arr, isArr := isArrayT(u.Elem()); isArr {
				return mkElem(v.t, i.t), arr.Elem(), true
			}
		}
		return "", nil, false
	}
	return "", nil, false
}

func mkElemOrB(a, i string) string { return mkElem(a, i) }

func (e *SpecEnv) selectValue(v SV, name string) SV {
	tc := e.fc.tc
	t := types.Unalias(v.typ)
	if !isStructT(t) {
		e.fail("selector .%s on non-struct %s", name, v.typ)
	}
	path, fv := fieldPath(t, e.pkg, name)
	if fv == nil {
		e.fail("no field %s in %s", name, t)
	}
	cur := v
	for _, i := range path {
		if pt, isPtr := types.Unalias(cur.typ).Underlying().(*types.Pointer); isPtr {
			// pointer embedded: continue through memory
			st := pt.Elem().Underlying().(*types.Struct)
			a := mkFld(cur.t, tc.fieldKey(pt.Elem(), i))
			cur = SV{t: e.fc.load(e.cur, a, st.Field(i).Type()), typ: st.Field(i).Type()}
			continue
		}
		st := types.Unalias(cur.typ).Underlying().(*types.Struct)
		s := tc.sortOf(cur.typ)
		cur = SV{t: app(fmt.Sprintf("%s_f%d", s, i), cur.t), typ: st.Field(i).Type()}
	}
	return cur
}

func isNilType(t types.Type) bool {
	b, ok := t.(*types.Basic)
	return ok && b.Kind() == types.UntypedNil
}

// unify coerces nil against the other operand's sort.
func (e *SpecEnv) unify(a, b SV) (SV, SV) {
	if isNilType(a.typ) && !isNilType(b.typ) {
		return SV{t: e.fc.tc.zero(b.typ), typ: b.typ}, b
	}
	if isNilType(b.typ) && !isNilType(a.typ) {
		return a, SV{t: e.fc.tc.zero(a.typ), typ: a.typ}
	}
	return a, b
}

func (e *SpecEnv) evalBinary(x *EBinary) SV {
	tc := e.fc.tc
	switch x.Op {
	case "&&":
		return SV{t: and(e.eval(x.X).t, e.eval(x.Y).t), typ: boolT}
	case "||":
		return SV{t: or(e.eval(x.X).t, e.eval(x.Y).t), typ: boolT}
	case "==>":
		return SV{t: implies(e.eval(x.X).t, e.eval(x.Y).t), typ: boolT}
	case "<==>":
		return SV{t: eq(e.eval(x.X).t, e.eval(x.Y).t), typ: boolT}
	}
	a, b := e.eval(x.X), e.eval(x.Y)
	switch x.Op {
	case "==", "!=":
		var t string
		switch {
		case isNilType(a.typ) || isNilType(b.typ):
			other := a
			if isNilType(a.typ) {
				other = b
			}
			switch types.Unalias(other.typ).Underlying().(type) {
			case *types.Slice:
				t = eq(sarr(other.t), nilPtr)
			case *types.Interface:
				t = eq(app("itag", other.t), "0")
			default:
				t = eq(other.t, nilPtr)
			}
		default:
			sa, sb := tc.sortOfSV(a), tc.sortOfSV(b)
			if sa != sb {
				e.fail("comparison of different sorts %s vs %s in %s", sa, sb, exprString(x))
			}
			if isMathInt(a.typ) || isNilType(a.typ) {
				t = eq(a.t, b.t)
			} else {
				t = tc.deepEq(a.t, b.t, a.typ)
			}
		}
		if x.Op == "!=" {
			t = not(t)
		}
		return SV{t: t, typ: boolT}
	case "<", "<=", ">", ">=":
		if tc.sortOfSV(a) == "Str" {
			return SV{t: e.fc.strOrder(x.Op, a.t, b.t), typ: boolT} // ext_strorder.go
		}
		return SV{t: app(x.Op, a.t, b.t), typ: boolT}
	case "+":
		if tc.sortOfSV(a) == "Str" {
			return SV{t: app("strcat", a.t, b.t), typ: a.typ}
		}
		return SV{t: app("+", a.t, b.t), typ: mathInt}
	case "-":
		return SV{t: app("-", a.t, b.t), typ: mathInt}
	case "*":
		return SV{t: app("*", a.t, b.t), typ: mathInt}
	case "/":
		return SV{t: app("div", a.t, b.t), typ: mathInt}
	case "%":
		return SV{t: app("mod", a.t, b.t), typ: mathInt}
	case "<<":
		if n, ok := new(big.Int).SetString(b.t, 10); ok && n.IsInt64() && n.Int64() < 512 {
			return SV{t: app("*", a.t, pow2(int(n.Int64())).String()), typ: mathInt}
		}
		return SV{t: app("shlv", a.t, b.t), typ: mathInt}
	case ">>":
		if n, ok := new(big.Int).SetString(b.t, 10); ok && n.IsInt64() && n.Int64() < 512 {
			return SV{t: app("div", a.t, pow2(int(n.Int64())).String()), typ: mathInt}
		}
		return SV{t: app("shrv", a.t, b.t), typ: mathInt}
	case "&":
		return SV{t: app("band", a.t, b.t), typ: mathInt}
	case "|":
		return SV{t: app("bor", a.t, b.t), typ: mathInt}
	case "^":
		return SV{t: app("bxor", a.t, b.t), typ: mathInt}
	}
	e.fail("unknown operator %s", x.Op)
	return SV{}
}

func (e *SpecEnv) evalCall(x *ECall) SV {
	fc := e.fc
	tc := fc.tc
	// builtins
	if id, ok := x.Fn.(*EIdent); ok {
		if _, shadow := e.vars[id.Name]; !shadow {
			switch id.Name {
			case "len", "cap":
				v := e.eval(x.Args[0])
				switch u := types.Unalias(v.typ).Underlying().(type) {
				case *types.Slice:
					if id.Name == "len" {
						return SV{t: slen(v.t), typ: mathInt}
					}
					return SV{t: scap(v.t), typ: mathInt}
				case *types.Array:
					return SV{t: num(u.Len()), typ: mathInt}
				case *types.Basic:
					return SV{t: app("strlen", v.t), typ: mathInt}
				case *types.Map:
					return SV{t: app("select", fc.comp(e.cur, "ML", "(Array Ptr Int)"), v.t), typ: mathInt}
				case *types.Pointer:
					if a, ok := isArrayT(u.Elem()); ok {
						return SV{t: num(a.Len()), typ: mathInt}
					}
				}
				e.fail("len of %s", v.typ)
			case "has":
				m := e.eval(x.Args[0])
				k := e.eval(x.Args[1])
				mt, ok := types.Unalias(m.typ).Underlying().(*types.Map)
				if !ok {
					e.fail("has() on non-map")
				}
				mh, _ := fc.mapComps(mt)
				return SV{t: app("select", app("select", fc.comp(e.cur, mh, fc.comps[mh]), m.t), k.t), typ: boolT}
			case "val":
				v := e.eval(x.Args[0])
				return e.selectValue(v, "i")
			case "min", "max":
				a, b := e.eval(x.Args[0]), e.eval(x.Args[1])
				return SV{t: app("i"+id.Name, a.t, b.t), typ: mathInt}
			case "abs":
				a := e.eval(x.Args[0])
				return SV{t: ite(app(">=", a.t, "0"), a.t, app("-", a.t)), typ: mathInt}
			case "tdiv", "trem":
				a, b := e.eval(x.Args[0]), e.eval(x.Args[1])
				return SV{t: app(id.Name, a.t, b.t), typ: mathInt}
			case "isnil":
				v := e.eval(x.Args[0])
				switch types.Unalias(v.typ).Underlying().(type) {
				case *types.Slice:
					return SV{t: eq(sarr(v.t), nilPtr), typ: boolT}
				case *types.Interface:
					return SV{t: eq(app("itag", v.t), "0"), typ: boolT}
				}
				return SV{t: eq(v.t, nilPtr), typ: boolT}
			case "iscell":
				// iscell(p): p is not the address of an array/slice element (it is a variable, field or allocation of its own);
				// loads through p then read the cell component only
				v := e.eval(x.Args[0])
				return SV{t: not("((_ is Elem) " + v.t + ")"), typ: boolT}
			case "fresh":
				// fresh(p): p was allocated by this call (root >= old watermark)
				v := e.eval(x.Args[0])
				p := v.t
				if _, ok := types.Unalias(v.typ).Underlying().(*types.Slice); ok {
					p = sarr(v.t)
				}
				if _, ok := types.Unalias(v.typ).Underlying().(*types.Interface); ok {
					p = app("iptr", v.t)
				}
				old := e.old
				if old == nil {
					old = e.cur
				}
				return SV{t: app(">=", app("root", p), fc.watermark(old)), typ: boolT}
			case "allocated":
				if len(x.Args) == 0 {
					// allocated(): number of slice elements allocated by make() in verified code so far (ghost counter)
					return SV{t: fc.comp(e.cur, "G|alloc", "Int"), typ: mathInt}
				}
				// allocated(p): p denotes an object that exists in the current state (root below the current watermark).
				// Heap closure: true of every pointer stored in a reachable cell; needed to separate it from later allocations.
				v := e.eval(x.Args[0])
				p := v.t
				if _, ok := types.Unalias(v.typ).Underlying().(*types.Slice); ok {
					p = sarr(v.t)
				}
				return SV{t: app("<", app("root", p), fc.watermark(e.cur)), typ: boolT}
			case "arr":
				// arr(s): the backing array (block pointer) of slice s, e.g. arr(enc.buf) == old(arr(enc.buf)) || fresh(enc.buf)
				v := e.eval(x.Args[0])
				sl, ok := types.Unalias(v.typ).Underlying().(*types.Slice)
				if !ok {
					e.fail("arr of non-slice")
				}
				return SV{t: sarr(v.t), typ: types.NewPointer(sl.Elem())}
			case "iface":
				// iface(x): the interface value MakeInterface builds from x (same tag and box function as the code path);
				// lets a spec name the arguments of a variadic ...any call (C05: fmt.Sprintf map keys)
				v := e.eval(x.Args[0])
				if v.typ == nil || isMathInt(v.typ) || isNilType(v.typ) {
					e.fail("iface() needs a value of a Go type")
				}
				tag := num(int64(tc.tagOf(v.typ)))
				payload := v.t
				if tc.sortOf(v.typ) != "Ptr" {
					box, _ := tc.boxFn(v.typ)
					payload = app(box, v.t)
				}
				return SV{t: app("mk-iface", tag, payload), typ: types.NewInterfaceType(nil, nil)}
			case "unbox":
				// unbox(x, T): the T value held by interface x (ext_c09.go)
				return e.specUnbox(e.eval(x.Args[0]), e.resolveType(exprString(x.Args[1])))
			case "typeis":
				// typeis(x, T): dynamic type of interface x is T
				v := e.eval(x.Args[0])
				t := e.resolveType(exprString(x.Args[1]))
				return SV{t: eq(app("itag", v.t), num(int64(tc.tagOf(t)))), typ: boolT}
			case "lexlt", "byteseq":
				// lexlt(a, b): lexicographic order of two byte strings (slices or arrays); uninterpreted, T-BYTES
				var parts []string
				for _, ax := range x.Args[:2] {
					v := e.eval(ax)
					switch u := types.Unalias(v.typ).Underlying().(type) {
					case *types.Slice:
						k, s := fc.bKey(u.Elem())
						parts = append(parts, app("select", fc.comp(e.cur, k, s), sarr(v.t)), soff(v.t), slen(v.t))
					case *types.Array:
						parts = append(parts, v.t, "0", num(u.Len()))
					default:
						e.fail("%s of %s", id.Name, v.typ)
					}
				}
				fc.eng.declareUF(fc, id.Name, []string{"(Array Int Int)", "Int", "Int", "(Array Int Int)", "Int", "Int"}, "Bool")
				return SV{t: app(id.Name, parts...), typ: boolT}
			case "bigbytes":
				// bigbytes(s): big-endian value of a byte string (uninterpreted function of block, offset, length)
				v := e.eval(x.Args[0])
				var parts []string
				switch u := types.Unalias(v.typ).Underlying().(type) {
				case *types.Slice:
					k, s := fc.bKey(u.Elem())
					parts = []string{app("select", fc.comp(e.cur, k, s), sarr(v.t)), soff(v.t), slen(v.t)}
				case *types.Array:
					parts = []string{v.t, "0", num(u.Len())}
				default:
					e.fail("bigbytes of %s", v.typ)
				}
				fc.eng.declareUF(fc, "bigbytes", []string{"(Array Int Int)", "Int", "Int"}, "Int")
				return SV{t: app("bigbytes", parts...), typ: mathInt}
			case "ghostint", "ghostbytes":
				// ghostint(name, p) / ghostbytes(name, p): ghost state attached to the object p points to (an integer / a byte
				// sequence indexed from 0). Written only by `modifies ghost name` clauses of assumed contracts.
				id, ok := x.Args[0].(*EIdent)
				if !ok || len(x.Args) != 2 {
					e.fail("%s(name, pointer)", id.Name)
				}
				pv := e.eval(x.Args[1])
				if tc.sortOfSV(pv) != "Ptr" {
					e.fail("ghost state needs a pointer key")
				}
				k := "G|" + id.Name
				cur := fc.comp(e.cur, k, ghostSort(id.Name))
				if ghostSort(id.Name) == "(Array Ptr Int)" {
					return SV{t: app("select", cur, pv.t), typ: mathInt}
				}
				return SV{t: app("select", cur, pv.t), typ: types.NewArray(types.Typ[types.Uint8], 0)}
			case "initguard":
				return e.extInitGuard() // ext_induct.go: the init$guard flag of the contract's package
			case "ghostvar":
				// ghostvar(NAME): current value of an auxiliary integer variable declared with `ghost NAME = INIT`
				id, ok := x.Args[0].(*EIdent)
				if !ok {
					e.fail("ghostvar(NAME)")
				}
				return SV{t: fc.comp(e.cur, "G|v|"+id.Name, "Int"), typ: mathInt}
			case "inblock":
				// inblock(p, s): pointer p is the address of an element of the backing array of slice s (any index) (ext_crypto.go)
				return e.inblockBuiltin(x)
			case "lit":
				// lit(b0, b1, ...): seq code of a byte-string literal (ext_c07.go)
				if e.lookupSpecFn(id.Name) == nil {
					return e.litBuiltin(x)
				}
			case "seqpart":
				// seqpart(a, off, n): the byte string held by the window [off, off+n) of a byte array VALUE or slice (ext_crypto.go)
				return e.seqpartBuiltin(x)
			case "visited":
				// visited(k): the ghost visited set of the map range loop whose invariant is being evaluated (ext_crypto.go)
				return e.visitedBuiltin(x)
			case "ptrof":
				// ptrof(x): the pointer held by an interface value
				v := e.eval(x.Args[0])
				if tc.sortOfSV(v) != "Iface" {
					e.fail("ptrof of non-interface")
				}
				return SV{t: app("iptr", v.t), typ: types.NewPointer(types.NewStruct(nil, nil))}
			case "seq":
				// seq(s): abstract value ("code") of the byte string held by a slice window or a byte array: an uninterpreted
				// function of (block, offset, length). The engine adds the ground equalities that copy/append establish.
				v := e.eval(x.Args[0])
				var parts []string
				switch u := types.Unalias(v.typ).Underlying().(type) {
				case *types.Slice:
					k, s := fc.bKey(u.Elem())
					parts = []string{app("select", fc.comp(e.cur, k, s), sarr(v.t)), soff(v.t), slen(v.t)}
				case *types.Array:
					parts = []string{v.t, "0", num(u.Len())}
				default:
					e.fail("seq of %s", v.typ)
				}
				fc.eng.declareUF(fc, "bseq", []string{"(Array Int Int)", "Int", "Int"}, "Int")
				return SV{t: app("bseq", parts...), typ: mathInt}
			case "cat":
				// cat(a, b): code of the concatenation of two byte strings given by their codes (uninterpreted)
				a, b := e.eval(x.Args[0]), e.eval(x.Args[1])
				fc.eng.declareUF(fc, "bcat", []string{"Int", "Int"}, "Int")
				return SV{t: app("bcat", a.t, b.t), typ: mathInt}
			case "strkey":
				return e.evalStrKey(x) // ext_kviter.go
			case "kvsub":
				return e.evalKvSub(x) // ext_kviter.go
			case "kvstr":
				// T-KV: kvstr(s): value id of the byte string held by the Go string s (ext_kvstr.go)
				v := e.eval(x.Args[0])
				if fc.tc.sortOfSV(v) != "Str" {
					e.fail("kvstr of %s", v.typ)
				}
				fc.eng.declareUF(fc, "kvstr", []string{"Str"}, "Int")
				return SV{t: app("kvstr", v.t), typ: mathInt}
			case "kvkey", "kvval":
				// T-KV: kvkey(s) / kvval(s): abstract identity of the byte string held by s (slice or array), used as key /
				// value of a key-value store. Uninterpreted function of (block, offset, length) exactly like bigbytes, i.e. any
				// function of the content is a model. Ids are >= 1: 0 is reserved for "no entry".
				v := e.eval(x.Args[0])
				var parts []string
				switch u := types.Unalias(v.typ).Underlying().(type) {
				case *types.Slice:
					k, s := fc.bKey(u.Elem())
					parts = []string{app("select", fc.comp(e.cur, k, s), sarr(v.t)), soff(v.t), slen(v.t)}
				case *types.Array:
					parts = []string{v.t, "0", num(u.Len())}
				default:
					e.fail("%s of %s", id.Name, v.typ)
				}
				fc.eng.declareUF(fc, id.Name, []string{"(Array Int Int)", "Int", "Int"}, "Int") // positivity axiom: see preamble()
				return SV{t: app(id.Name, parts...), typ: mathInt}
			case "bytes":
				// bytes(s): the (Array Int Int) block behind a byte slice, for use with seq builtins
				v := e.eval(x.Args[0])
				k, s := fc.bKey(types.Typ[types.Uint8])
				return SV{t: app("select", fc.comp(e.cur, k, s), sarr(v.t)), typ: types.NewArray(types.Typ[types.Uint8], 0)}
			case "int", "uint64", "uint32", "uint16", "uint8", "byte", "int64", "int32", "uint", "mathint":
				return SV{t: e.eval(x.Args[0]).t, typ: mathInt}
			case "blen", "sub", "strseq", "bytestr", "stralgebra", "noaxioms":
				// T-BYTES algebra (ext_bytesalgebra.go); a spec function of the same name takes precedence
				if e.lookupSpecFn(id.Name) == nil {
					if v, ok := e.evalAlgebraBuiltin(id.Name, x.Args); ok {
						return v
					}
				}
			}
			if v, ok := e.extBuiltin(id.Name, x); ok { // builtins added by extension files (ext_*.go)
				return v
			}
			// spec function
			if sf := e.lookupSpecFn(id.Name); sf != nil {
				return e.applySpecFn(sf, x.Args)
			}
			// plain Go function of the package, pure
			if e.pkg != nil {
				if fo, ok := e.pkg.Scope().Lookup(id.Name).(*types.Func); ok {
					var args []SV
					for _, a := range x.Args {
						args = append(args, e.eval(a))
					}
					return e.applyPure(fc.eng.prog.FuncValue(fo), args)
				}
				if tn, ok := e.pkg.Scope().Lookup(id.Name).(*types.TypeName); ok && len(x.Args) == 1 {
					v := e.eval(x.Args[0])
					return SV{t: v.t, typ: tn.Type()}
				}
			}
			e.fail("unknown function %s", id.Name)
		}
	}
	if sel, ok := x.Fn.(*ESel); ok {
		// pkg.Func(...) or pkg.SpecFn
		if id, ok := sel.X.(*EIdent); ok {
			if _, isVar := e.vars[id.Name]; !isVar && (e.fr == nil || !e.fr.hasLocal(id.Name)) {
				if p := e.lookupPkg(id.Name); p != nil && (e.pkg == nil || e.pkg.Scope().Lookup(id.Name) == nil) {
					if sf := fc.eng.contracts.SpecFns[shortType(p.Path())+"."+sel.Name]; sf != nil {
						return e.applySpecFn(sf, x.Args)
					}
					if fo, ok := p.Scope().Lookup(sel.Name).(*types.Func); ok {
						var args []SV
						for _, a := range x.Args {
							args = append(args, e.eval(a))
						}
						return e.applyPure(fc.eng.prog.FuncValue(fo), args)
					}
					if tn, ok := p.Scope().Lookup(sel.Name).(*types.TypeName); ok && len(x.Args) == 1 {
						v := e.eval(x.Args[0])
						return SV{t: v.t, typ: tn.Type()}
					}
					e.fail("unknown %s.%s", id.Name, sel.Name)
				}
			}
		}
		// method call recv.M(args)
		recv := e.eval(sel.X)
		obj, _, _ := types.LookupFieldOrMethod(recv.typ, true, e.pkg, sel.Name)
		mo, ok := obj.(*types.Func)
		if !ok {
			// try with the method's own package for unexported names
			if n, isN := derefNamed(recv.typ); isN && n.Obj().Pkg() != nil {
				obj, _, _ = types.LookupFieldOrMethod(recv.typ, true, n.Obj().Pkg(), sel.Name)
				mo, ok = obj.(*types.Func)
			}
		}
		if !ok {
			e.fail("no method %s on %s", sel.Name, recv.typ)
		}
		args := []SV{recv}
		sig := mo.Type().(*types.Signature)
		// adjust receiver pointer-ness
		if _, wantPtr := sig.Recv().Type().(*types.Pointer); !wantPtr {
			if pt, isPtr := types.Unalias(recv.typ).Underlying().(*types.Pointer); isPtr {
				args[0] = SV{t: fc.load(e.cur, recv.t, pt.Elem()), typ: pt.Elem()}
			}
		} else if _, isPtr := types.Unalias(recv.typ).Underlying().(*types.Pointer); !isPtr {
			if a, t, ok := e.evalAddr(sel.X); ok {
				args[0] = SV{t: a, typ: types.NewPointer(t)}
			} else {
				e.fail("method %s needs addressable receiver", sel.Name)
			}
		}
		for _, a := range x.Args {
			args = append(args, e.eval(a))
		}
		if types.IsInterface(recv.typ) {
			key := "(" + shortType(types.TypeString(types.Unalias(recv.typ), nil)) + ")." + sel.Name
			return e.applyPureKey(key, sig, args, nil)
		}
		fn := fc.eng.prog.FuncValue(mo)
		if fn == nil {
			e.fail("no ssa function for %s", mo.FullName())
		}
		return e.applyPure(fn, args)
	}
	e.fail("cannot call %s", exprString(x.Fn))
	return SV{}
}

// ghostSort: ghost components named bytes_* hold a byte sequence per object, all others an integer per object.
func ghostSort(name string) string {
	if strings.HasPrefix(name, "bytes_") {
		return "(Array Ptr (Array Int Int))"
	}
	return "(Array Ptr Int)"
}

func derefNamed(t types.Type) (*types.Named, bool) {
	t = types.Unalias(t)
	if p, ok := t.Underlying().(*types.Pointer); ok {
		t = types.Unalias(p.Elem())
	}
	n, ok := t.(*types.Named)
	return n, ok
}

func (e *SpecEnv) lookupSpecFn(name string) *SpecFn {
	cs := e.fc.eng.contracts
	if e.pkg != nil {
		if sf := cs.SpecFns[shortType(e.pkg.Path())+"."+name]; sf != nil {
			return sf
		}
	}
	return cs.SpecFns[name]
}

func (e *SpecEnv) applySpecFn(sf *SpecFn, argExprs []Expr) SV {
	if len(argExprs) != len(sf.Params) {
		e.fail("spec %s: arity", sf.Name)
	}
	if e.depth > 12 {
		e.fail("spec %s: recursion too deep (recursive spec functions are not supported)", sf.Name)
	}
	var args []SV
	for _, a := range argExprs {
		args = append(args, e.eval(a))
	}
	n := *e
	n.vars = map[string]SV{}
	n.depth = e.depth + 1
	n.fr = nil
	if p := e.lookupPkgPath(sf.Pkg); p != nil {
		n.pkg = p
	}
	for i, b := range sf.Params {
		t := n.resolveType(b.Type)
		a := args[i]
		if isNilType(a.typ) {
			a = SV{t: e.fc.tc.zero(t), typ: t}
		}
		if !isMathInt(t) {
			a.typ = t
		}
		n.vars[b.Name] = a
	}
	if sf.Rec {
		return e.applyRec(sf, &n, args)
	}
	if sf.Uninterp {
		ret := n.resolveType(sf.Ret)
		var sorts, ts []string
		for i, a := range args {
			if isNilType(a.typ) {
				a = n.vars[sf.Params[i].Name] // a literal nil argument: the typed zero value (a nil slice is (content, 0, 0), not a pointer)
			}
			ss, tt := e.uninterpArg(a, n.resolveType(sf.Params[i].Type)) // slices of leaf elements: (block content, offset, length), see ext_c34.go
			sorts = append(sorts, ss...)
			ts = append(ts, tt...)
		}
		if len(sf.Reads) > 0 {
			// `reads` clause: the listed heap components (of the state the call is evaluated in) are extra arguments
			rs, rt := e.readsArgs(sf, &n)
			e.readsFrameArgs("sf_"+mangle(sf.Pkg+"_"+sf.Name), e.fc.tc.sortOf(ret), rs, rt, func(ent *SpecEnv) []string { _, t0 := ent.readsArgs(sf, &n); return t0 }, sorts, args,
				func(env *SpecEnv) []string { // the actual arguments as rendered in state env.cur (slices: block content, offset, length)
					var out []string
					for i, a := range args {
						_, tt := env.uninterpArg(a, n.resolveType(sf.Params[i].Type))
						out = append(out, tt...)
					}
					return out
				})
			sorts, ts = append(rs, sorts...), append(rt, ts...)
		}
		name := "sf_" + mangle(sf.Pkg+"_"+sf.Name)
		e.fc.eng.declareUF(e.fc, name, sorts, e.fc.tc.sortOf(ret))
		if _, isArr := isArrayT(ret); isArr && len(sorts) > 0 {
			// an uninterpreted spec function with an array result (e.g. crypto.Hash) ranges over well-formed Go values:
			// canonical arrays (zero outside the index range) with elements in range
			if e.fc.ufAxioms == nil {
				e.fc.ufAxioms = map[string]string{}
			}
			if _, done := e.fc.ufAxioms[name]; !done {
				var decls, vs []string
				for i, srt := range sorts {
					v := fmt.Sprintf("ua%d", i)
					decls = append(decls, "("+v+" "+srt+")")
					vs = append(vs, v)
				}
				call := app(name, vs...)
				if w := e.fc.tc.wf(call, ret, ""); w != "true" {
					e.fc.ufAxioms[name] = fmt.Sprintf("(assert (forall (%s) (! %s :pattern (%s))))", strings.Join(decls, " "), w, call)
				}
			}
		}
		return SV{t: app(name, ts...), typ: ret}
	}
	r := n.eval(sf.Body)
	if sf.Ret != "" && sf.Ret != "bool" && sf.Ret != "mathint" {
		r.typ = n.resolveType(sf.Ret)
	}
	return r
}

func (e *SpecEnv) lookupPkgPath(short string) *types.Package {
	// the repository package wins over a standard-library package of the same short path (crypto vs mixin/crypto)
	for _, p := range e.fc.eng.prog.AllPackages() {
		if p.Pkg.Path() == modPrefix+short {
			return p.Pkg
		}
	}
	for _, p := range e.fc.eng.prog.AllPackages() {
		if p.Pkg.Path() == modPrefix+short {
			return p.Pkg
		}
	}
	for _, p := range e.fc.eng.prog.AllPackages() {
		if shortType(p.Pkg.Path()) == short {
			return p.Pkg
		}
	}
	return nil
}

// applyPure: call of a Go function inside a spec. Requires a `pure` contract; definitional ensures are expanded.
func (e *SpecEnv) applyPure(fn *ssa.Function, args []SV) SV {
	if fn == nil {
		e.fail("unknown function in spec")
	}
	key := funcKey(fn)
	return e.applyPureKey(key, fn.Signature, args, fn)
}

func (e *SpecEnv) applyPureKey(key string, sig *types.Signature, args []SV, fn *ssa.Function) SV {
	fc := e.fc
	spec := fc.eng.contracts.Funcs[key]
	if spec == nil || !spec.Pure {
		e.fail("function %s used in a spec needs a `pure` contract", key)
	}
	if sig.Results().Len() != 1 {
		e.fail("pure function %s must have one result", key)
	}
	rt := sig.Results().At(0).Type()
	// definitional form: ensures result == E  /  result <==> E
	names := paramNames(spec, sig)
	for _, cl := range spec.Ensures {
		b, ok := cl.E.(*EBinary)
		if !ok || (b.Op != "==" && b.Op != "<==>") {
			continue
		}
		id, ok := b.X.(*EIdent)
		if !ok || (id.Name != "result" && id.Name != resultName(sig, 0)) {
			continue
		}
		n := *e
		n.vars = map[string]SV{}
		n.depth = e.depth + 1
		n.fr = nil
		if e.depth > 12 {
			e.fail("pure expansion too deep")
		}
		if p := e.lookupPkgPath(spec.Pkg); p != nil {
			n.pkg = p
		}
		for i, a := range args {
			if i < len(names) {
				n.vars[names[i]] = a
			}
		}
		r := n.eval(b.Y)
		if !isMathInt(rt) || true {
			r.typ = rt
		}
		return r
	}
	if t, ok := fc.pureHeapTerm(key, e.cur, args, rt); ok { // pointer/slice arguments: the value depends on the heap (pureheap.go)
		fc.calleesUsed[key] = true
		return SV{t: t, typ: rt}
	}
	var sorts, ts []string
	for _, a := range args {
		sorts = append(sorts, fc.tc.sortOfSV(a))
		ts = append(ts, a.t)
	}
	name := "pf_" + mangle(key)
	fc.eng.declareUF(fc, name, sorts, fc.tc.sortOf(rt))
	fc.calleesUsed[key] = true
	return SV{t: app(name, ts...), typ: rt}
}

func resultName(sig *types.Signature, i int) string {
	if sig.Results().Len() > i && sig.Results().At(i).Name() != "" {
		return sig.Results().At(i).Name()
	}
	if sig.Results().Len() == 1 {
		return "result"
	}
	return fmt.Sprintf("result%d", i)
}

func paramNames(spec *FuncSpec, sig *types.Signature) []string {
	var names []string
	if sig.Recv() != nil {
		n := sig.Recv().Name()
		if n == "" || n == "_" {
			n = "recv"
		}
		names = append(names, n)
	}
	for i := 0; i < sig.Params().Len(); i++ {
		n := sig.Params().At(i).Name()
		if n == "" || n == "_" {
			n = fmt.Sprintf("arg%d", i)
		}
		names = append(names, n)
	}
	if spec != nil && len(spec.ParamNames) > 0 {
		off := 0
		if sig.Recv() != nil {
			off = 1
		}
		for i, n := range spec.ParamNames {
			if off+i < len(names) {
				names[off+i] = n
			}
		}
	}
	return names
}

// iteFreePatterns replaces every (ite c a b) inside a pattern by a resp. b, giving up to 8 ite-free alternatives.
func iteFreePatterns(p string) []string {
	i := strings.Index(p, "(ite ")
	if i < 0 {
		return []string{p}
	}
	depth, j := 0, i
	for ; j < len(p); j++ {
		if p[j] == '(' {
			depth++
		} else if p[j] == ')' {
			depth--
			if depth == 0 {
				break
			}
		}
	}
	if j >= len(p) {
		return []string{p}
	}
	parts := splitTop(p[i : j+1])
	if len(parts) != 4 {
		return []string{p}
	}
	var out []string
	for _, br := range parts[2:] {
		out = append(out, iteFreePatterns(p[:i]+br+p[j+1:])...)
		if len(out) > 8 {
			break
		}
	}
	return out
}

// recWellFounded checks the syntactic shape  n <= 0 ? base : step  with every self call of the form f(..., n - 1).
func recWellFounded(sf *SpecFn) error {
	if len(sf.Params) == 0 {
		return fmt.Errorf("rec %s needs an integer last parameter", sf.Name)
	}
	n := sf.Params[len(sf.Params)-1].Name
	ite, ok := sf.Body.(*EIte)
	if !ok {
		return fmt.Errorf("rec %s: body must be `%s <= 0 ? base : step`", sf.Name, n)
	}
	c, ok := ite.C.(*EBinary)
	if !ok || c.Op != "<=" {
		return fmt.Errorf("rec %s: guard must be `%s <= 0`", sf.Name, n)
	}
	if id, ok := c.X.(*EIdent); !ok || id.Name != n {
		return fmt.Errorf("rec %s: guard must be `%s <= 0`", sf.Name, n)
	}
	if z, ok := c.Y.(*ENum); !ok || z.Val != "0" {
		return fmt.Errorf("rec %s: guard must be `%s <= 0`", sf.Name, n)
	}
	var bad error
	var walk func(x Expr, inStep bool)
	walk = func(x Expr, inStep bool) {
		switch v := x.(type) {
		case *ECall:
			if id, ok := v.Fn.(*EIdent); ok && id.Name == sf.Name {
				if !inStep {
					bad = fmt.Errorf("rec %s: self call outside the step branch", sf.Name)
				} else if len(v.Args) != len(sf.Params) {
					bad = fmt.Errorf("rec %s: arity of self call", sf.Name)
				} else {
					last, ok := v.Args[len(v.Args)-1].(*EBinary)
					lid, ok2 := Expr(nil), false
					if ok {
						lid, ok2 = last.X, true
					}
					one, ok3 := (*ENum)(nil), false
					if ok {
						one, ok3 = last.Y.(*ENum)
					}
					lname, ok4 := lid.(*EIdent)
					if !(ok && ok2 && ok3 && ok4 && last.Op == "-" && lname.Name == n && one.Val == "1") {
						bad = fmt.Errorf("rec %s: self calls must pass `%s - 1` as the last argument", sf.Name, n)
					}
				}
			}
			walk(v.Fn, inStep)
			for _, a := range v.Args {
				walk(a, inStep)
			}
		case *EUnary:
			walk(v.X, inStep)
		case *EBinary:
			walk(v.X, inStep)
			walk(v.Y, inStep)
		case *ESel:
			walk(v.X, inStep)
		case *EIndex:
			walk(v.X, inStep)
			walk(v.I, inStep)
		case *EIte:
			walk(v.C, inStep)
			walk(v.A, inStep)
			walk(v.B, inStep)
		case *ELet:
			walk(v.Val, inStep)
			walk(v.Body, inStep)
		case *EOld:
			bad = fmt.Errorf("rec %s: old() is not allowed in a rec body", sf.Name)
		case *EQuant:
			walk(v.Body, inStep)
		}
	}
	walk(ite.C, false)
	walk(ite.A, false)
	walk(ite.B, true)
	return bad
}

// applyRec: a recursive spec function is an uninterpreted function of (the heap components it reads, its arguments)
// with its defining equation as a pattern-triggered axiom. Well-foundedness is checked syntactically (recWellFounded).
func (e *SpecEnv) applyRec(sf *SpecFn, n *SpecEnv, args []SV) SV {
	fc := e.fc
	if err := recWellFounded(sf); err != nil {
		e.fail("%v", err)
	}
	name := "rf_" + mangle(sf.Pkg+"_"+sf.Name)
	if fc.recInfo == nil {
		fc.recInfo = map[string][]string{}
		fc.recBusy = map[string]bool{}
	}
	var ret types.Type = mathInt
	if sf.Ret != "" && sf.Ret != "mathint" {
		ret = n.resolveType(sf.Ret)
	}
	if t, ok := recSubst[fc][name]; ok { // ext_induct.go: frame axiom construction replaces the recursive call by a bound variable
		return SV{t: t, typ: ret}
	}
	comps, known := fc.recInfo[name]
	if !known {
		if fc.recBusy[name] {
			// footprint discovery in progress: a self call contributes nothing new
			return SV{t: fc.tc.zero(ret), typ: ret}
		}
		fc.recBusy[name] = true
		// phase 1: which heap components does the body read?
		saved := fc.touchLog
		fc.touchLog = map[string]bool{}
		probe := *n
		probe.cur = &State{heap: map[string]string{}}
		probe.old = probe.cur
		probe.vars = map[string]SV{}
		var decls, argNames []string
		for i, b := range sf.Params {
			t := n.resolveType(b.Type)
			an := fmt.Sprintf("ra%d", i)
			probe.vars[b.Name] = SV{t: an, typ: t}
			decls = append(decls, "("+an+" "+fc.tc.sortOf(t)+")")
			argNames = append(argNames, an)
		}
		probe.eval(sf.Body)
		for k := range fc.touchLog {
			if k != "W" {
				comps = append(comps, k)
			}
		}
		sortStrings(comps)
		fc.touchLog = saved
		fc.recInfo[name] = comps
		delete(fc.recBusy, name)
		// phase 2: the defining equation over symbolic heap components
		st := &State{heap: map[string]string{}}
		var hdecls, hnames, sorts []string
		for _, k := range comps {
			hn := "rh_" + mangle(k)
			st.heap[k] = hn
			hdecls = append(hdecls, "("+hn+" "+fc.comps[k]+")")
			hnames = append(hnames, hn)
			sorts = append(sorts, fc.comps[k])
		}
		for i, b := range sf.Params {
			sorts = append(sorts, fc.tc.sortOf(n.resolveType(b.Type)))
			_ = i
		}
		e.extRecLimitBegin(sf, name, sorts, fc.tc.sortOf(ret)) // ext_induct.go: `reclimit`
		fc.eng.declareUF(fc, name, sorts, fc.tc.sortOf(ret))
		probe.cur, probe.old = st, st
		body := probe.eval(sf.Body)
		call := app(name, append(append([]string{}, hnames...), argNames...)...)
		if fc.ufAxioms == nil {
			fc.ufAxioms = map[string]string{}
		}
		fc.ufAxioms[name] = fmt.Sprintf("(assert (forall (%s) (! (= %s %s) :pattern (%s))))", strings.Join(append(hdecls, decls...), " "), call, body.t, call)
		fc.assumes["rec spec "+sf.Pkg+"."+sf.Name+": defining equation (syntactically well-founded on its last parameter)"] = true
		if fa := recFrameAxioms(name, comps, hnames, fc.comps, hdecls, decls, argNames, body.t); fa != "" {
			fc.ufAxioms[name] += "\n" + fa // ext_recframe.go: stores at allocation roots do not change the value
		}
		if fa := recElemFrameAxioms(name, comps, hnames, fc.comps, hdecls, decls, argNames, body.t); fa != "" {
			fc.ufAxioms[name] += "\n" + fa // ext_c07.go: stores outside the element cells of a slice parameter do not change the value
			fc.assumes["rec spec "+sf.Pkg+"."+sf.Name+": element frame theorem (stores outside the elements of its slice parameter), by induction on its last parameter"] = true
		}
		e.extRecLimitEnd(sf, name, strings.Join(append(hdecls, decls...), " "), call)
		e.extRecFrame(sf, n, name, comps, fc.tc.sortOf(ret))
	}
	var ts []string
	var hsorts, asorts []string
	for _, k := range comps {
		ts = append(ts, fc.comp(e.cur, k, fc.comps[k]))
		hsorts = append(hsorts, fc.comps[k])
	}
	for _, a := range args {
		asorts = append(asorts, fc.tc.sortOfSV(a))
	}
	// frame rule w.r.t. the entry state (opt-in `uses readsframe`, ext_crypto.go)
	e.readsFrame(name, fc.tc.sortOf(ret), hsorts, append([]string{}, ts...), func(ent *SpecEnv) []string {
		var t0 []string
		for _, k := range comps {
			t0 = append(t0, fc.comp(ent.cur, k, fc.comps[k]))
		}
		return t0
	}, asorts, args)
	for _, a := range args {
		ts = append(ts, a.t)
	}
	if rn, ok := recRename[fc][name]; ok { // ext_induct.go: inside the defining axiom of a `reclimit`ed function
		return SV{t: app(rn, ts...), typ: ret}
	}
	return SV{t: app(name, ts...), typ: ret}
}

func sortStrings(xs []string) {
	for i := 1; i < len(xs); i++ {
		for j := i; j > 0 && xs[j] < xs[j-1]; j-- {
			xs[j], xs[j-1] = xs[j-1], xs[j]
		}
	}
}
