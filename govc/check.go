package main

import (
	"encoding/json"
	"flag"
	"fmt"
	"os"
	"path/filepath"
	"sort"
	"strconv"
	"strings"
	"sync"
	"time"
)

type KnownFinding struct {
	Property   string `json:"property"`
	Obligation string `json:"obligation"`
	WhatFails  string `json:"what_fails"`
	Replay     string `json:"replay,omitempty"`
}

type KnownFile struct {
	Findings []KnownFinding `json:"findings"`
	Fixed    []string       `json:"fixed"`
}

type ObReport struct {
	Name     string   `json:"name"`
	Kind     string   `json:"kind"`
	Pos      string   `json:"pos,omitempty"`
	Clause   string   `json:"clause,omitempty"`
	Verdict  string   `json:"verdict"`
	Solver   string   `json:"solver,omitempty"`
	TimeS    float64  `json:"time_s"`
	Attempts []string `json:"attempts,omitempty"`
}

func checkMain(args []string) int {
	fs := flag.NewFlagSet("check", flag.ExitOnError)
	tier := fs.String("tier", "quick", "quick|thorough")
	repo := fs.String("repo", "/repo", "repository")
	verif := fs.String("verif", "/verif", "verif dir")
	replay := fs.String("replay", "", "replay file to re-run")
	keep := fs.Bool("keep", false, "keep smt files")
	if len(args) == 0 {
		fmt.Fprintln(os.Stderr, "usage: govc check Cxx [--tier quick|thorough]")
		return 2
	}
	prop := args[0]
	fs.Parse(args[1:])
	seed := 1
	if s := os.Getenv("VERIF_SEED"); s != "" {
		if n, err := strconv.Atoi(s); err == nil {
			seed = n
		}
	}
	if t := os.Getenv("VERIF_TIER"); t != "" && *tier == "" {
		*tier = t
	}
	if *replay != "" {
		return replayMain(prop, *replay, *repo, *verif)
	}
	start := time.Now()
	eng, err := loadEngine(*repo, findSpecFiles(filepath.Join(*verif, "govc/trusted")))
	if err != nil {
		fmt.Fprintln(os.Stderr, "machinery error:", err)
		return 2
	}
	clauseFilterProp = prop // ext_propfilter.go: clauses of the verified function that belong only to other properties are left out
	funcs := eng.contracts.funcsWithProp(prop)
	var lemmas []*Lemma
	for _, l := range eng.contracts.Lemmas {
		for _, p := range l.Props {
			if p == prop {
				lemmas = append(lemmas, l)
			}
		}
	}
	if len(funcs) == 0 && len(lemmas) == 0 {
		fmt.Fprintf(os.Stderr, "machinery error: no contract is tagged with property %s\n", prop)
		return 2
	}
	outDir := filepath.Join(*verif, "out", fmt.Sprintf("%s-%s-%d", prop, *tier, os.Getpid()))
	os.MkdirAll(outDir, 0o755)
	opts := solveOpts{outDir: outDir, quickS: 20, retryS: 60, seed: seed, keep: *keep}
	opts.known = map[string]bool{}
	for _, k := range loadKnown(filepath.Join(*verif, "known_findings.json")).Findings {
		if k.Property == prop {
			opts.known[k.Obligation] = true
		}
	}
	if *tier == "thorough" {
		opts.quickS, opts.retryS = 60, 180
	}
	type unit struct {
		fc  *FnCtx
		tag string
	}
	var units []unit
	var underContract []string
	for _, f := range funcs {
		if f.Assume || f.Opaque {
			continue // assumed contracts generate no obligations; they are listed in assumptions
		}
		fn := eng.funcByKey[f.Key]
		if fn == nil || len(fn.Blocks) == 0 {
			eng.staleErrs = append(eng.staleErrs, fmt.Sprintf("contract-stale: %s: no such function in the repository (%s)", f.Key, f.Src))
			continue
		}
		fc, err := eng.verifyFunc(fn, f.Props)
		if err != nil {
			eng.staleErrs = append(eng.staleErrs, err.Error())
			continue
		}
		units = append(units, unit{fc, f.Key})
		underContract = append(underContract, f.Key)
	}
	for _, l := range lemmas {
		fc, err := eng.lemmaCtx(l)
		if err != nil {
			eng.staleErrs = append(eng.staleErrs, err.Error())
			continue
		}
		units = append(units, unit{fc, "lemma_" + l.Name})
		underContract = append(underContract, "lemma:"+l.Name)
	}
	if len(eng.staleErrs) > 0 {
		for _, s := range eng.staleErrs {
			fmt.Fprintln(os.Stderr, s)
		}
	}
	var wg sync.WaitGroup
	sem := make(chan struct{}, 4)
	for _, u := range units {
		wg.Add(1)
		go func(u unit) {
			defer wg.Done()
			sem <- struct{}{}
			defer func() { <-sem }()
			u.fc.solveAll(opts, u.tag)
		}(u)
	}
	wg.Wait()

	known := loadKnown(filepath.Join(*verif, "known_findings.json"))
	knownBy := map[string]KnownFinding{}
	for _, k := range known.Findings {
		if k.Property == prop {
			knownBy[k.Obligation] = k
		}
	}
	total, discharged := 0, 0
	solverTime := 0.0
	bySolver := map[string]int{}
	var reports []ObReport
	var samples []any
	var violations, knownHits []*Obligation
	assumptions := map[string]bool{}
	covTotal, covDead := map[string]int{}, map[string]int{}
	var deadNotes []string
	var outOfSubset []string
	// A failed obligation is assumed after it has been checked (Boogie style), so everything after it in the same function may be
	// vacuous: a refuted vacuity probe in such a function is a consequence of the failure, not a contradictory contract.
	funcFailed := map[string]bool{}
	for _, u := range units {
		for _, ob := range u.fc.obls {
			if !ob.Cover && (ob.Result == nil || ob.Result.Verdict != "unsat") {
				funcFailed[ob.Func] = true
			}
		}
	}
	for _, u := range units {
		for a := range u.fc.assumes {
			assumptions[a] = true
		}
		for _, w := range u.fc.outOfSubset {
			outOfSubset = append(outOfSubset, funcKeyOrLemma(u.fc)+": "+w)
		}
		for _, w := range u.fc.warnings {
			assumptions["warning: "+w] = true
		}
		for _, ob := range u.fc.obls {
			replayFc[ob] = u.fc // replay_run.go needs the verification context of a failed obligation
			tagged := false
			for _, p := range ob.Props {
				if p == prop {
					tagged = true
				}
			}
			if !tagged && !ob.Cover {
				continue
			}
			want := "unsat"
			if ob.Cover {
				want = "sat"
			}
			r := ob.Result
			if r == nil {
				r = &SolveResult{Verdict: "none"}
			}
			solverTime += r.TimeS
			rep := ObReport{Name: ob.Name, Kind: ob.Kind, Pos: ob.Pos, Clause: ob.Text, Verdict: r.Verdict, Solver: r.Solver, TimeS: r.TimeS, Attempts: r.Attempts}
			if ob.Cover {
				// vacuity probes are not proof obligations. A refuted entry probe (contradictory precondition) or a function
				// none of whose returns is reachable breaks the check; a single unreachable return is just dead code.
				covTotal[ob.Func]++
				if r.Verdict != want && !funcFailed[ob.Func] {
					covDead[ob.Func]++
					deadNotes = append(deadNotes, ob.Name)
					if strings.HasSuffix(ob.Name, "#cover:entry") || strings.HasSuffix(ob.Name, "#cover") {
						fmt.Fprintf(os.Stderr, "machinery error: vacuous contract: %s is unsatisfiable\n", ob.Name)
						eng.staleErrs = append(eng.staleErrs, "vacuous: "+ob.Name)
					}
				}
				continue
			}
			total++
			if r.Verdict == want {
				discharged++
				bySolver[r.Solver]++
				if len(samples) < 6 && r.Solver != "syntactic" {
					samples = append(samples, map[string]any{"obligation": ob.Name, "kind": ob.Kind, "at": ob.Pos, "clause": ob.Text, "solver": r.Solver, "verdict": r.Verdict})
				}
			} else if _, isKnown := knownBy[ob.Name]; isKnown {
				knownHits = append(knownHits, ob)
			} else {
				violations = append(violations, ob)
			}
			reports = append(reports, rep)
		}
	}
	for f, n := range covTotal {
		// entry probe + return probes: all return probes refuted means no execution satisfies the contract's assumptions
		if n > 1 && covDead[f] >= n-1 && covDead[f] > 0 {
			fmt.Fprintf(os.Stderr, "machinery error: vacuous contract: no return of %s is reachable\n", f)
			eng.staleErrs = append(eng.staleErrs, "vacuous: "+f)
		}
	}
	for _, d := range deadNotes {
		assumptions["note: unreachable return (dead code or contradictory path assumptions): "+d] = true
	}
	// Contract clauses that no longer match the code (a named local, loop or closure is gone) were dropped while the obligations were
	// generated. If obligations that used to be discharged now fail, that is reported as the violation it is (the proof of the
	// property no longer goes through on this tree); only when nothing fails is the mismatch itself the result: no verdict.
	if len(eng.staleErrs) > 0 && len(violations) == 0 {
		fmt.Fprintln(os.Stderr, "machinery error: contracts do not match the code (see above); no verdict")
		return 2
	}
	for _, s := range eng.staleErrs {
		assumptions["note: contract clause dropped because it no longer matches the code: "+s] = true
	}
	if total == 0 {
		fmt.Fprintln(os.Stderr, "machinery error: zero obligations generated")
		return 2
	}
	// a known finding that is now discharged is simply discharged (a fixed entry suppresses nothing)
	os.MkdirAll(filepath.Join(*verif, "replays"), 0o755)
	os.MkdirAll(filepath.Join(*verif, "evidence"), 0o755)
	for _, ob := range knownHits {
		k := knownBy[ob.Name]
		fmt.Printf("KNOWN-FINDING: property=%s %s: %s\n", prop, ob.Name, k.WhatFails)
	}
	exit := 0
	for _, ob := range violations {
		path := filepath.Join(*verif, "replays", fmt.Sprintf("%s-%s.json", prop, mangle(ob.Name)))
		reproduced := writeReplay(path, prop, ob, eng, *repo, *verif)
		suffix := ""
		if !reproduced {
			suffix = " no-failing-input-found"
		}
		fmt.Printf("VIOLATION property=%s replay=%s obligation=%s%s\n", prop, path, ob.Name, suffix)
		exit = 1
	}
	var as []string
	for a := range assumptions {
		as = append(as, a)
	}
	sort.Strings(as)
	sort.Strings(outOfSubset)
	for _, o := range outOfSubset {
		as = append(as, "out-of-subset (abstracted as unknown value): "+o)
	}
	as = append(as, "go/ssa (x/tools v0.50.0) is the front end instead of the gc compiler; govc's SSA->SMT translation and the SMT solvers are trusted",
		"machine integers are SMT Int with exact wraparound; spec-level arithmetic is mathematical",
		"pointer validity / type safety of the Go heap (no unsafe, no data races) is a typing invariant assumed at loads")
	var trusted []string
	for _, a := range as {
		if strings.HasPrefix(a, "assumed contract") || strings.HasPrefix(a, "default-summary") || strings.HasPrefix(a, "unspecified external") {
			trusted = append(trusted, a)
		}
	}
	trusted = append(trusted, "z3 4.8.12, z3 5.1.0, cvc5 1.0.3", "golang.org/x/tools/go/ssa v0.50.0", "govc VC generator (/verif/govc)")
	level := "proof"
	cov := map[string]any{
		"obligations":              total,
		"discharged":               discharged,
		"checker_cmd":              fmt.Sprintf("/verif/check %s --tier %s   (per obligation: z3-new|z3|cvc5 <file>.smt2, kept under /verif/out on failure or with --keep)", prop, *tier),
		"trusted_base":             trusted,
		"functions_under_contract": underContract,
		"solver_time_s":            solverTime,
		"by_solver":                bySolver,
		"samples":                  samples,
		"bounded":                  []string{},
		"known_findings":           len(knownHits),
		"obligation_reports":       reports,
	}
	if discharged != total {
		level = "other"
		var names []string
		for _, ob := range knownHits {
			names = append(names, ob.Name+" (known finding)")
		}
		for _, ob := range violations {
			names = append(names, ob.Name+" (VIOLATION)")
		}
		cov["explanation"] = fmt.Sprintf("%d of %d obligations discharged; undischarged: %s", discharged, total, strings.Join(names, "; "))
	}
	ev := map[string]any{
		"property_id": prop, "tier": *tier, "seed": seed, "level": level, "coverage": cov,
		"assumptions": as, "wall_s": time.Since(start).Seconds(), "violations": len(violations),
	}
	data, _ := json.MarshalIndent(ev, "", " ")
	os.WriteFile(filepath.Join(*verif, "evidence", prop+".json"), data, 0o644)
	fmt.Printf("%s: %d obligations, %d discharged, %d known findings, %d violations (%.1fs)\n", prop, total, discharged, len(knownHits), len(violations), time.Since(start).Seconds())
	if exit == 0 && !*keep {
		os.RemoveAll(outDir)
	}
	return exit
}

func loadKnown(path string) *KnownFile {
	k := &KnownFile{}
	data, err := os.ReadFile(path)
	if err != nil {
		return k
	}
	json.Unmarshal(data, k)
	return k
}

// writeReplay records the failed obligation and, where a model and a template exist, replays it on the real code.
func writeReplay(path, prop string, ob *Obligation, eng *Engine, repo, verif string) bool {
	r := ob.Result
	if r == nil {
		r = &SolveResult{Verdict: "none"}
	}
	rec := map[string]any{
		"property":   prop,
		"obligation": ob.Name,
		"kind":       ob.Kind,
		"at":         ob.Pos,
		"clause":     ob.Text,
		"verdict":    r.Verdict,
		"solver":     r.Solver,
		"attempts":   r.Attempts,
		"smt_file":   ob.Known,
		"solver_output": truncate(r.Raw, 20000),
	}
	reproduced := false
	if (r.Verdict == "sat" && r.Model != "") || replayCandidate(ob) {
		rec["model"] = truncate(r.Model, 20000)
		ok, detail := tryReplay(eng, ob, r.Model, repo, verif)
		rec["replay"] = detail
		reproduced = ok
	}
	if !reproduced {
		rec["result"] = "no-failing-input-found"
	} else {
		rec["result"] = "reproduced on the real code"
	}
	data, _ := json.MarshalIndent(rec, "", " ")
	os.WriteFile(path, data, 0o644)
	return reproduced
}

func truncate(s string, n int) string {
	if len(s) > n {
		return s[:n] + "\n…(truncated)"
	}
	return s
}

func replayMain(prop, path, repo, verif string) int {
	data, err := os.ReadFile(path)
	if err != nil {
		fmt.Fprintln(os.Stderr, err)
		return 2
	}
	var rec map[string]any
	json.Unmarshal(data, &rec)
	fmt.Printf("replay %s: obligation %v, recorded result: %v\n", path, rec["obligation"], rec["result"])
	if t, ok := rec["replay"].(map[string]any); ok {
		if src, ok := t["test_source"].(string); ok {
			pkg, _ := t["package"].(string)
			failedRun, out := runReplayTest(repo, pkg, src)
			fmt.Println(out)
			if !failedRun {
				fmt.Println("replay: the real code no longer fails on this input")
				return 0
			}
			fmt.Printf("VIOLATION property=%s replay=%s\n", prop, path)
			return 1
		}
	}
	fmt.Println("no replayable input recorded (no-failing-input-found)")
	return 0
}
