package main

func checkMain(args []string) int { return 2 }
