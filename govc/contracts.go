package main

import (
	"fmt"
	"os"
	"path/filepath"
	"regexp"
	"sort"
	"strconv"
	"strings"
)

type Clause struct {
	Label string
	E     Expr
	Text  string
	Props []string
	Src   string
	Pkg   string
}

type ModLoc struct {
	All      bool
	Contents bool // x[..] : the elements of slice x
	Cap      bool // x[..cap] : the whole capacity window
	Tail     bool // x[len..cap] : only the spare capacity
	Whole    bool // x[*]  : every cell of the backing array of slice x (in-place append writes beyond len)
	DelOnly  bool // m[-]  : entries of map m may be deleted; no entry is added or changed
	E        Expr
	Text     string
	Ghost    string
}

type Hint struct {
	Where  string // "return" or "after"
	Callee string
	Clause Clause
}

type FuncSpec struct {
	TrustPre   []string
	TrustPreQuiet []string // subset of TrustPre: precondition formulas are not even assumed at the call sites
	IgnorePost map[string][]string // callee name -> labels of the postconditions that ARE kept at its call sites (all others are dropped)
	NoFrame    bool
	AssumedEns []Clause
	Hints      []Hint
	Key        string // canonical function key
	Pkg        string // short package path of the file
	ParamNames []string
	Requires   []Clause
	Ensures    []Clause
	PanicsWhen []Clause
	Modifies   []ModLoc
	HasMod     bool
	Pure       bool
	Assume     bool // contract is assumed (interface method, external, out of subset)
	Trusted    bool // from /verif/govc/trusted
	Inline     bool
	NoInline   bool
	LoopInv    map[int][]Clause
	Props      []string
	Src        string
	Fresh      bool // result is freshly allocated
	Opaque     bool // do not verify the body (listed as assumption)
	BV         bool
	Modes map[string]bool // proof-search options of this function's VC (`mode <name>`)
	Unroll     map[int]int
	MayPanic   bool // explicit panics are not obligations here (documented rejection)
	NoPanicWhen []Clause // `nopanic when E` (ext_nopanic.go): under E (entry state) no explicit or propagated panic is reachable
	Lockset    string // `lockset <field>`: syntactic check that the method runs under receiver.<field> (see lockset.go)
	Ghosts     []GhostVar    // auxiliary integer variables of the function (initialised at entry)
	GhostUpds  []*GhostUpd   // assignments to them, anchored at a source line of the function body
	Unreachable map[string]bool // cover names (return@<block>) that must be PROVED unreachable instead of probed for reachability
	Uses       map[string]bool // `uses entryclosure, blockframe`: opt-in heap facts for the verification of this function (ext_crypto.go)
}

// GhostVar / GhostUpd: auxiliary (ghost) integer variables. They never influence the program, so adding them is sound;
// they let an invariant talk about a quantity the code does not keep (e.g. the size of a message that will be built).
type GhostVar struct {
	Name string
	Init Clause
}

type GhostUpd struct {
	Anchor string // the trimmed source text of the statement line before which the assignment happens (must occur exactly once)
	Name   string
	E      Clause
	Hits   int
}

type SpecFn struct {
	Name   string
	Pkg    string
	Params []Binder
	Ret    string
	Body   Expr
	Text   string
	Uninterp bool
	Rec      bool // recursive over its last (integer) parameter: n <= 0 ? base : f(..., n-1)
	Reads    []string // uninterp only: leaf types whose heap components are implicit arguments (`reads byte, uint64, *Key`)
}

type Lemma struct {
	Name     string
	Pkg      string
	Params   []Binder
	Requires []Clause
	Ensures  []Clause
	Props    []string
	Src      string
	ExpectFail string // known-finding style: lemma instance that is expected not to hold
}

type Contracts struct {
	Shadowed []string
	Funcs   map[string]*FuncSpec
	SpecFns map[string]*SpecFn // by pkg.Name and by Name
	Lemmas  []*Lemma
	Files   []string
	Axioms  []Clause
}

// contractsRepoDir: root of the loaded repository (set by loadEngine); contract files get their package path relative to it.
var contractsRepoDir string

var reFuncHdr = regexp.MustCompile(`^func\s*(\(\s*(\w+)?\s*(\*?)\s*([\w./-]+)\s*\))?\s*([\w$./-]+)\s*(\(([^)]*)\))?`)

func loadContracts(files []string) (*Contracts, error) {
	cs := &Contracts{Funcs: map[string]*FuncSpec{}, SpecFns: map[string]*SpecFn{}}
	for _, f := range files {
		if err := cs.loadFile(f); err != nil {
			return nil, fmt.Errorf("%s: %v", f, err)
		}
		cs.Files = append(cs.Files, f)
	}
	if err := cs.mergeExtensions(); err != nil { // ext_c07.go: `extend func`
		return nil, err
	}
	return cs, nil
}

var clauseKeywords = []string{"ignorepost", "rec", "trustpre", "noframe", "lockset", "assumes", "hint", "func", "assume", "spec", "lemma", "requires", "ensures", "panics", "modifies", "reads", "pure", "loop", "property", "inline", "noinline", "fresh", "opaque", "axiom", "package", "uninterp", "maypanic", "expectfail", "mode", "unroll", "unreachable", "ghost", "at", "uses", "nopanic"}

func startsClause(s string) bool {
	for _, k := range clauseKeywords {
		if s == k || strings.HasPrefix(s, k+" ") || strings.HasPrefix(s, k+"\t") || strings.HasPrefix(s, k+"(") {
			return true
		}
	}
	return false
}

func (cs *Contracts) loadFile(path string) error {
	data, err := os.ReadFile(path)
	if err != nil {
		return err
	}
	trusted := strings.HasSuffix(path, ".spec")
	pkg := ""
	if !trusted {
		// package path relative to /repo
		dir := filepath.Dir(path)
		if contractsRepoDir != "" && strings.HasPrefix(dir, contractsRepoDir+"/") {
			pkg = dir[len(contractsRepoDir)+1:] // package path relative to the repository that was loaded (any location)
		} else if i := strings.Index(dir, "/repo/"); i >= 0 {
			pkg = dir[i+6:]
		} else {
			pkg = filepath.Base(dir)
		}
	}
	// gather logical clauses
	type lc struct {
		text string
		line int
	}
	var clauses []lc
	for i, raw := range strings.Split(string(data), "\n") {
		line := strings.TrimSpace(raw)
		if !strings.HasPrefix(line, "//@") {
			continue
		}
		line = strings.TrimSpace(line[3:])
		if line == "" || strings.HasPrefix(line, "--") {
			continue
		}
		if j := strings.Index(line, " -- "); j >= 0 {
			line = strings.TrimSpace(line[:j])
		}
		if startsClause(line) || len(clauses) == 0 {
			clauses = append(clauses, lc{line, i + 1})
		} else {
			clauses[len(clauses)-1].text += " " + line
		}
	}
	var cur *FuncSpec
	var curLemma *Lemma
	for _, c := range clauses {
		src := fmt.Sprintf("%s:%d", path, c.line)
		word, rest := c.text, ""
		if i := strings.IndexAny(c.text, " \t"); i >= 0 {
			word, rest = c.text[:i], strings.TrimSpace(c.text[i+1:])
		}
		fail := func(err error) error { return fmt.Errorf("line %d: %v", c.line, err) }
		switch word {
		case "package":
			pkg = rest
		case "assume", "func":
			assume := word == "assume"
			hdr := c.text
			if assume {
				hdr = rest
			}
			m := reFuncHdr.FindStringSubmatch(hdr)
			if m == nil {
				return fail(fmt.Errorf("bad func header %q", hdr))
			}
			fs := &FuncSpec{Pkg: pkg, Assume: assume || trusted, Trusted: trusted, LoopInv: map[int][]Clause{}, Src: src, Unroll: map[int]int{}}
			name := m[5]
			fpkg := pkg
			if i := strings.LastIndex(name, "."); i >= 0 && m[1] == "" {
				// qualified function name pkg.Func in trusted files
				fpkg, name = name[:i], name[i+1:]
			}
			if m[1] != "" {
				recvT := m[4]
				rp := fpkg
				if i := strings.LastIndex(recvT, "."); i >= 0 {
					rp, recvT = recvT[:i], recvT[i+1:]
				}
				if m[3] == "*" {
					fs.Key = fmt.Sprintf("(*%s.%s).%s", rp, recvT, name)
				} else {
					fs.Key = fmt.Sprintf("(%s.%s).%s", rp, recvT, name)
				}
			} else {
				fs.Key = fpkg + "." + name
			}
			if m[6] != "" {
				for _, p := range strings.Split(m[7], ",") {
					p = strings.TrimSpace(p)
					if p == "" {
						continue
					}
					fs.ParamNames = append(fs.ParamNames, strings.Fields(p)[0])
				}
			}
			if old, dup := cs.Funcs[fs.Key]; dup {
				switch {
				case !old.Assume && !fs.Assume:
					return fail(fmt.Errorf("duplicate contract for %s (also %s)", fs.Key, old.Src))
				case old.Assume && !fs.Assume:
					// a verified contract replaces an assumed one
					cs.Shadowed = append(cs.Shadowed, fmt.Sprintf("%s: assumed contract at %s is shadowed by the verified contract at %s", fs.Key, old.Src, fs.Src))
					cs.Funcs[fs.Key] = fs
				default:
					// keep the existing one; the clauses that follow are parsed into a detached spec
					cs.Shadowed = append(cs.Shadowed, fmt.Sprintf("%s: assumed contract at %s is shadowed by the contract at %s", fs.Key, fs.Src, old.Src))
				}
			} else {
				cs.Funcs[fs.Key] = fs
			}
			cur, curLemma = fs, nil
		case "extend":
			// extend func (recv) Name: additional clauses for a contract that lives in another file (ext_c07.go)
			fs, err := cs.beginExtend(rest, pkg, src, trusted)
			if err != nil {
				return fail(err)
			}
			cur, curLemma = fs, nil
		case "spec", "uninterp", "rec":
			// spec Name(a T, b U) R = expr ; rec Name(..., n int) mathint = n <= 0 ? base : step(Name(..., n - 1))
			i := strings.Index(rest, "(")
			j := matchParen(rest, i)
			if i < 0 || j < 0 {
				return fail(fmt.Errorf("bad spec header"))
			}
			sf := &SpecFn{Name: strings.TrimSpace(rest[:i]), Pkg: pkg, Text: rest, Uninterp: word == "uninterp", Rec: word == "rec"}
			bs, err := parseBinders(rest[i+1 : j])
			if err != nil {
				return fail(err)
			}
			sf.Params = bs
			tail := strings.TrimSpace(rest[j+1:])
			if word == "uninterp" {
				sf.Ret, sf.Reads = splitReads(tail) // `uninterp F(..) T reads byte, uint64` (ext_crypto.go)
			} else {
				k := strings.Index(tail, "=")
				if k < 0 {
					return fail(fmt.Errorf("spec without body"))
				}
				sf.Ret = strings.TrimSpace(tail[:k])
				e, err := parseExpr(tail[k+1:])
				if err != nil {
					return fail(err)
				}
				sf.Body = e
			}
			if prev, dup := cs.SpecFns[pkg+"."+sf.Name]; dup {
				return fail(fmt.Errorf("duplicate spec function %s.%s (also: %s)", pkg, sf.Name, prev.Text))
			}
			cs.SpecFns[pkg+"."+sf.Name] = sf
			if _, ok := cs.SpecFns[sf.Name]; !ok {
				cs.SpecFns[sf.Name] = sf
			}
			cur, curLemma = nil, nil
		case "lemma":
			i := strings.Index(rest, "(")
			j := matchParen(rest, i)
			if i < 0 || j < 0 {
				return fail(fmt.Errorf("bad lemma header"))
			}
			bs, err := parseBinders(rest[i+1 : j])
			if err != nil {
				return fail(err)
			}
			curLemma = &Lemma{Name: strings.TrimSpace(rest[:i]), Pkg: pkg, Params: bs, Src: src}
			cs.Lemmas = append(cs.Lemmas, curLemma)
			cur = nil
		case "axiom":
			cl, err := mkClause(rest, src)
			if err != nil {
				return fail(err)
			}
			cl.Pkg = pkg
			cs.Axioms = append(cs.Axioms, cl)
		case "trustpre":
			// trustpre <callee> ...: the preconditions of calls to these callees made by this function are assumed, not
			// checked (they belong to another property's proof); listed as assumptions
			if cur != nil {
				fs := strings.Fields(rest)
				if len(fs) > 0 && fs[0] == "quiet:" {
					// trustpre quiet: <callee> ...: as trustpre (neither checked nor claimed), but the precondition formulas are NOT added
					// to this function's context either (for callees whose representation invariants are large quantified formulas
					// that this proof does not need: they only slow the solvers down). Listed as the same assumption.
					cur.TrustPreQuiet = append(cur.TrustPreQuiet, fs[1:]...)
					cur.TrustPre = append(cur.TrustPre, fs[1:]...)
				} else {
					cur.TrustPre = append(cur.TrustPre, fs...)
				}
			}
		case "ignorepost":
			// ignorepost <callee>[:label,label...] ...: at the call sites of these callees in this function the callee's postconditions
			// are NOT added to the context, except the listed labels (the callee's frame still applies). Dropping assumptions is always
			// sound; it keeps quantifier-heavy postconditions that this proof does not need (e.g. permutation clauses with
			// forall/exists alternation) from flooding the solver.
			if cur != nil {
				if cur.IgnorePost == nil {
					cur.IgnorePost = map[string][]string{}
				}
				for _, f := range strings.Fields(rest) {
					name, keep := f, []string{}
					if i := strings.Index(f, ":"); i >= 0 {
						name, keep = f[:i], strings.Split(f[i+1:], ",")
					}
					cur.IgnorePost[name] = keep
				}
			}
		case "noframe":
			// the modifies clause of this function is assumed, not checked against its body (listed as an assumption)
			if cur != nil {
				cur.NoFrame = true
			}
		case "assumes":
			// postcondition that callers may rely on but that is NOT verified against the body (listed as an assumption)
			if cur == nil {
				return fail(fmt.Errorf("assumes outside func"))
			}
			cl, err := mkClause(rest, src)
			if err != nil {
				return fail(err)
			}
			cur.AssumedEns = append(cur.AssumedEns, cl)
		case "requires", "ensures":
			cl, err := mkClause(rest, src)
			if err != nil {
				return fail(err)
			}
			switch {
			case curLemma != nil && word == "requires":
				curLemma.Requires = append(curLemma.Requires, cl)
			case curLemma != nil:
				curLemma.Ensures = append(curLemma.Ensures, cl)
			case cur != nil && word == "requires":
				cur.Requires = append(cur.Requires, cl)
			case cur != nil:
				cur.Ensures = append(cur.Ensures, cl)
			default:
				return fail(fmt.Errorf("clause outside func/lemma"))
			}
		case "panics":
			if cur == nil {
				return fail(fmt.Errorf("panics outside func"))
			}
			rest = strings.TrimSpace(strings.TrimPrefix(rest, "when"))
			cl, err := mkClause(rest, src)
			if err != nil {
				return fail(err)
			}
			cur.PanicsWhen = append(cur.PanicsWhen, cl)
		case "modifies":
			if cur == nil {
				return fail(fmt.Errorf("modifies outside func"))
			}
			cur.HasMod = true
			for _, part := range splitCommaTop(rest) {
				part = strings.TrimSpace(part)
				switch {
				case part == "nothing":
				case part == "*":
					cur.Modifies = append(cur.Modifies, ModLoc{All: true, Text: part})
				case strings.HasPrefix(part, "ghost "):
					cur.Modifies = append(cur.Modifies, ModLoc{Ghost: strings.TrimSpace(part[6:]), Text: part})
				case strings.HasSuffix(part, "[len..cap]"):
					// the spare capacity of the slice: what an in-place append may write
					e, err := parseExpr(part[:len(part)-10])
					if err != nil {
						return fail(err)
					}
					cur.Modifies = append(cur.Modifies, ModLoc{Contents: true, Cap: true, Tail: true, E: e, Text: part})
				case strings.HasSuffix(part, "[..cap]"):
					// the whole capacity window of the slice (an in-place append writes beyond len)
					e, err := parseExpr(part[:len(part)-7])
					if err != nil {
						return fail(err)
					}
					cur.Modifies = append(cur.Modifies, ModLoc{Contents: true, Cap: true, E: e, Text: part})
				case strings.HasSuffix(part, "[-]"):
					// m[-]: entries of map m may be DELETED, none is added or changed (ext_maprange.go)
					e, err := parseExpr(part[:len(part)-3])
					if err != nil {
						return fail(err)
					}
					cur.Modifies = append(cur.Modifies, ModLoc{Contents: true, DelOnly: true, E: e, Text: part})
				case strings.HasSuffix(part, "[*]"):
					e, err := parseExpr(part[:len(part)-3])
					if err != nil {
						return fail(err)
					}
					cur.Modifies = append(cur.Modifies, ModLoc{Contents: true, Whole: true, E: e, Text: part})
				case strings.HasSuffix(part, "[..]"):
					e, err := parseExpr(part[:len(part)-4])
					if err != nil {
						return fail(err)
					}
					cur.Modifies = append(cur.Modifies, ModLoc{Contents: true, E: e, Text: part})
				default:
					e, err := parseExpr(part)
					if err != nil {
						return fail(err)
					}
					cur.Modifies = append(cur.Modifies, ModLoc{E: e, Text: part})
				}
			}
		case "reads":
		case "pure":
			if cur != nil {
				cur.Pure = true
				cur.HasMod = true
			}
		case "inline":
			if cur != nil {
				cur.Inline = true
			}
		case "noinline":
			if cur != nil {
				cur.NoInline = true
			}
		case "fresh":
			if cur != nil {
				cur.Fresh = true
			}
		case "opaque":
			if cur != nil {
				cur.Opaque = true
				cur.Assume = true
			}
		case "maypanic":
			if cur != nil {
				cur.MayPanic = true
			}
		case "nopanic":
			// nopanic when E (ext_nopanic.go)
			if cur == nil {
				return fail(fmt.Errorf("nopanic outside func"))
			}
			rest = strings.TrimSpace(strings.TrimPrefix(rest, "when"))
			cl, err := mkClause(rest, src)
			if err != nil {
				return fail(err)
			}
			cur.NoPanicWhen = append(cur.NoPanicWhen, cl)
		case "ghost":
			// ghost NAME = INIT
			if cur == nil {
				return fail(fmt.Errorf("ghost outside func"))
			}
			k := strings.Index(rest, "=")
			if k < 0 {
				return fail(fmt.Errorf("ghost NAME = INIT"))
			}
			cl, err := mkClause(rest[k+1:], src)
			if err != nil {
				return fail(err)
			}
			cur.Ghosts = append(cur.Ghosts, GhostVar{Name: strings.TrimSpace(rest[:k]), Init: cl})
		case "at":
			// at "source line text" ghost NAME = EXPR
			if cur == nil {
				return fail(fmt.Errorf("at outside func"))
			}
			q1 := strings.Index(rest, "\"")
			q2 := strings.LastIndex(rest, "\" ghost ")
			if q1 != 0 || q2 <= q1 {
				return fail(fmt.Errorf(`at "source line" ghost NAME = EXPR`))
			}
			tail := rest[q2+len("\" ghost "):]
			k := strings.Index(tail, "=")
			if k < 0 {
				return fail(fmt.Errorf(`at "source line" ghost NAME = EXPR`))
			}
			cl, err := mkClause(tail[k+1:], src)
			if err != nil {
				return fail(err)
			}
			cur.GhostUpds = append(cur.GhostUpds, &GhostUpd{Anchor: strings.TrimSpace(rest[q1+1 : q2]), Name: strings.TrimSpace(tail[:k]), E: cl})
		case "unreachable":
			// unreachable return@<block>: a defensive branch that is dead under the (assumed) contracts of the callees;
			// the vacuity probe of that return is replaced by the obligation that the path is infeasible
			if cur != nil {
				if cur.Unreachable == nil {
					cur.Unreachable = map[string]bool{}
				}
				for _, f := range strings.Fields(rest) {
					cur.Unreachable[f] = true
				}
			}
		case "lockset":
			if cur != nil {
				cur.Lockset = rest
			}
		case "uses":
			// uses entryclosure, blockframe: opt-in facts assumed while verifying THIS function (see ext_crypto.go)
			// uses L1, L2 (lemma names; on a lemma or a function): closures of lemmas proved in the same check (ext_induct.go).
			// Both kinds may be mixed in one clause: fact names are taken here, every other name is a lemma name.
			var lemmaNames []string
			for _, f := range strings.FieldsFunc(rest, func(r rune) bool { return r == ',' || r == ' ' || r == '\t' }) {
				if f == "entryclosure" || f == "blockframe" || f == "readsframe" {
					if cur == nil {
						return fail(fmt.Errorf("uses %s outside func", f))
					}
					if cur.Uses == nil {
						cur.Uses = map[string]bool{}
					}
					cur.Uses[f] = true
					continue
				}
				lemmaNames = append(lemmaNames, f)
			}
			if len(lemmaNames) > 0 {
				if _, err := extClause("uses", strings.Join(lemmaNames, ", "), pkg, cur, curLemma); err != nil {
					return fail(err)
				}
			}
		case "mode":
			if cur != nil && rest == "bv64" {
				cur.BV = true
			} else if cur != nil {
				if cur.Modes == nil {
					cur.Modes = map[string]bool{}
				}
				cur.Modes[strings.TrimSpace(rest)] = true // e.g. `mode append-back` (ext_kviter.go)
			}
		case "unroll":
			f := strings.Fields(rest)
			if cur != nil && len(f) == 2 {
				a, _ := strconv.Atoi(f[0])
				b, _ := strconv.Atoi(f[1])
				cur.Unroll[a] = b
			}
		case "expectfail":
			if curLemma != nil {
				curLemma.ExpectFail = rest
			}
		case "loop":
			if cur == nil {
				return fail(fmt.Errorf("loop outside func"))
			}
			f := strings.SplitN(rest, " ", 3)
			if len(f) < 3 {
				return fail(fmt.Errorf("bad loop clause"))
			}
			n, err := strconv.Atoi(f[0])
			if err != nil {
				return fail(err)
			}
			if f[1] != "invariant" {
				continue // decreases: not checked
			}
			cl, err := mkClause(f[2], src)
			if err != nil {
				return fail(err)
			}
			cur.LoopInv[n] = append(cur.LoopInv[n], cl)
		case "hint":
			// hint return E | hint after <callee> E : an intermediate assertion (checked, then assumed)
			if cur == nil {
				return fail(fmt.Errorf("hint outside func"))
			}
			f := strings.SplitN(rest, " ", 2)
			h := Hint{Where: f[0]}
			body := ""
			if len(f) > 1 {
				body = f[1]
			}
			if h.Where == "after" {
				g := strings.SplitN(strings.TrimSpace(body), " ", 2)
				if len(g) < 2 {
					return fail(fmt.Errorf("bad hint"))
				}
				h.Callee, body = g[0], g[1]
			} else if h.Where == "at" {
				// hint at "source line text" E: checked, then assumed, before the first instruction of that statement line (ext_linehint.go)
				b := strings.TrimSpace(body)
				q2 := -1
				if strings.HasPrefix(b, "\"") {
					q2 = strings.Index(b[1:], "\" ")
				}
				if q2 < 0 {
					return fail(fmt.Errorf(`hint at "source line" E`))
				}
				h.Callee, body = strings.TrimSpace(b[1:q2+1]), b[q2+3:]
			} else if h.Where != "return" {
				return fail(fmt.Errorf("hint needs `return` or `after <callee>`"))
			}
			cl, err := mkClause(body, src)
			if err != nil {
				return fail(err)
			}
			h.Clause = cl
			cur.Hints = append(cur.Hints, h)
		case "property":
			ps := strings.FieldsFunc(rest, func(r rune) bool { return r == ',' || r == ' ' })
			if curLemma != nil {
				curLemma.Props = append(curLemma.Props, ps...)
			} else if cur != nil {
				cur.Props = append(cur.Props, ps...)
			}
		default:
			if ok, err := extClause(word, rest, pkg, cur, curLemma); ok { // ext_induct.go: induct, uses, pattern, recframe
				if err != nil {
					return fail(err)
				}
				continue
			}
			return fail(fmt.Errorf("unknown clause %q", word))
		}
	}
	return nil
}

var reLabel = regexp.MustCompile(`^\[([\w\-]+)\]\s*`)
var reProp = regexp.MustCompile(`^@(C\d+(,C\d+)*)\s+`)

func mkClause(text, src string) (Clause, error) {
	cl := Clause{Src: src}
	for {
		if m := reLabel.FindStringSubmatch(text); m != nil {
			cl.Label = m[1]
			text = text[len(m[0]):]
			continue
		}
		if m := reProp.FindStringSubmatch(text); m != nil {
			cl.Props = strings.Split(m[1], ",")
			text = text[len(m[0]):]
			continue
		}
		break
	}
	e, err := parseExpr(text)
	if err != nil {
		return cl, err
	}
	cl.E = e
	cl.Text = text
	return cl, nil
}

func matchParen(s string, i int) int {
	if i < 0 {
		return -1
	}
	d := 0
	for j := i; j < len(s); j++ {
		switch s[j] {
		case '(':
			d++
		case ')':
			d--
			if d == 0 {
				return j
			}
		}
	}
	return -1
}

func splitCommaTop(s string) []string {
	var out []string
	d, st := 0, 0
	for i := 0; i < len(s); i++ {
		switch s[i] {
		case '(', '[':
			d++
		case ')', ']':
			d--
		case ',':
			if d == 0 {
				out = append(out, s[st:i])
				st = i + 1
			}
		}
	}
	if strings.TrimSpace(s[st:]) != "" {
		out = append(out, s[st:])
	}
	return out
}

// parseBinders: "a, b int, c *T"
func parseBinders(s string) ([]Binder, error) {
	var out []Binder
	var pending []string
	for _, part := range splitCommaTop(s) {
		f := strings.Fields(strings.TrimSpace(part))
		switch len(f) {
		case 0:
		case 1:
			pending = append(pending, f[0])
		default:
			ty := strings.Join(f[1:], "")
			for _, p := range pending {
				out = append(out, Binder{p, ty})
			}
			pending = nil
			out = append(out, Binder{f[0], ty})
		}
	}
	if len(pending) > 0 {
		return nil, fmt.Errorf("binders without type: %v", pending)
	}
	return out, nil
}

func (cs *Contracts) funcsWithProp(p string) []*FuncSpec {
	var out []*FuncSpec
	for _, f := range cs.Funcs {
		has := false
		for _, q := range f.Props {
			if q == p {
				has = true
			}
		}
		for _, c := range append(append([]Clause{}, f.Ensures...), f.Requires...) {
			for _, q := range c.Props {
				if q == p {
					has = true
				}
			}
		}
		if has {
			out = append(out, f)
		}
	}
	sort.Slice(out, func(i, j int) bool { return out[i].Key < out[j].Key })
	return out
}
