package main

import (
	"bytes"
	"context"
	"encoding/json"
	"fmt"
	"go/types"
	"os"
	"os/exec"
	"path/filepath"
	"strconv"
	"strings"
	"sync"
	"time"

	"golang.org/x/tools/go/ssa"
)

// replayFc remembers the verification context of every obligation that may have to be replayed (filled by the drivers).
var replayFc = map[*Obligation]*FnCtx{}

var replaySpent time.Duration

const (
	replayModelBudget = 150 * time.Second // model extraction per attempt (solver time slices + reading the model)
	replayTotalBudget = 20 * time.Minute  // all replays of one govc run
	replayPerViolation = 5 * time.Minute  // no new attempt for a violation after this
	replayTestBudget  = 360 * time.Second // go test (a cold build of the package's test binary can take minutes; the test itself runs with -timeout 60s)
)

// genericReplay: model -> inputs -> in-package test of the real function -> reproduced or not. Candidate models depend on
// the solver configuration in an unpredictable way, so a configuration whose candidate did not lead to a reproduction is
// followed by the next one, up to replayPerViolation of wall time.
func genericReplay(eng *Engine, ob *Obligation, repo, verif string) (bool, map[string]any) {
	start := time.Now()
	used := map[string]bool{}
	var history []string
	for round := 0; ; round++ {
		ok, detail := genericReplayOnce(eng, ob, repo, verif, used)
		solver, _ := detail["model_solver"].(string)
		if len(history) > 0 {
			detail["earlier_attempts"] = history
		}
		if ok || solver == "" || round >= 3 || time.Since(start) > replayPerViolation || replaySpent > replayTotalBudget {
			return ok, detail
		}
		if _, isCandidate := detail["model_kind"].(string); !isCandidate || !strings.Contains(detail["model_kind"].(string), "candidate") {
			return ok, detail // a genuine model was replayed: another solver would not change the answer
		}
		if n, _ := detail["note"].(string); strings.HasPrefix(n, "the violated clause is not expressible") || strings.HasPrefix(n, "unsupported input kind: closures") {
			return ok, detail
		}
		used[solver] = true
		history = append(history, fmt.Sprintf("%s: %v", solver, detail["note"]))
	}
}

func genericReplayOnce(eng *Engine, ob *Obligation, repo, verif string, skip map[string]bool) (reproduced bool, detail map[string]any) {
	detail = map[string]any{"generator": "generic"}
	defer func() {
		if r := recover(); r != nil {
			reproduced = false
			switch x := r.(type) {
			case unsupportedErr:
				detail["note"] = x.msg
			case specErr:
				detail["note"] = "replay generator: " + x.msg
			default:
				detail["note"] = fmt.Sprintf("replay generator failed: %v", r)
			}
		}
	}()
	// overall cap per process: a check with many violations must not spend hours replaying
	if replaySpent > replayTotalBudget {
		detail["note"] = fmt.Sprintf("replay budget of this run exhausted (%s spent on earlier violations)", replaySpent.Round(time.Second))
		return false, detail
	}
	t0 := time.Now()
	defer func() {
		replaySpent += time.Since(t0)
		detail["replay_seconds"] = time.Since(t0).Seconds()
	}()
	fc := replayFc[ob]
	if fc == nil || fc.root == nil {
		detail["note"] = "no replay for this kind of obligation (" + ob.Kind + "): not a function under contract"
		return false, detail
	}
	fn := fc.root
	mode := ""
	switch {
	case strings.HasPrefix(ob.Kind, "safe:"):
		mode = "panic-at"
	case ob.Kind == "pre" && strings.Contains(ob.Name, ":nopanic"):
		mode = "panic-at"
	case ob.Kind == "post", ob.Kind == "panic-spec", ob.Kind == "panic-iff":
		mode = ob.Kind
	case ob.Kind == "hint" && replayReturnHint(eng.specFor(fc.root), ob) != nil:
		mode = "post" // `hint return E` is an assertion about the state at the return: evaluated like a postcondition
	default:
		detail["note"] = "obligation kind " + ob.Kind + " is not observable by running the function (loop invariant, frame, hint, callee precondition, lemma ...)"
		return false, detail
	}
	if fn.Parent() != nil || fn.Synthetic != "" || fn.Object() == nil {
		detail["note"] = "unsupported input kind: closures / synthetic functions cannot be called from a test (" + funcKey(fn) + ")"
		return false, detail
	}
	if fn.Origin() != nil || fn.TypeParams().Len() > 0 {
		detail["note"] = "unsupported input kind: generic function " + funcKey(fn)
		return false, detail
	}
	pkgPath := fn.Pkg.Pkg.Path()
	if !strings.HasPrefix(pkgPath, modPrefix) {
		detail["note"] = "function outside the repository: " + pkgPath
		return false, detail
	}
	pkgDir := strings.TrimPrefix(pkgPath, modPrefix)
	detail["package"] = pkgDir
	spec := eng.specFor(fn)
	sig := fn.Signature

	// 1. model extraction
	deadline := time.Now().Add(replayModelBudget)
	if replayCompCount[fc] == 0 {
		replayCompCount[fc] = len(fc.compList)
	}
	ground, prefer, nGround := fc.groundPreconditions(spec) // before rendering: it may register new declarations
	script := fc.renderForReplay(ob, false)
	light := fc.renderForReplay(ob, true) // for candidate models: without the quantified lemmas of earlier obligations
	detail["precondition_instances"] = nGround
	sess, solver, err := openModelSession(ob, script, light, fc.heapTypingAxioms(false), fc.heapTypingAxioms(false)+ground, fc.heapTypingAxioms(true)+ground, prefer, deadline, skip)
	if err != nil {
		detail["note"] = "model extraction: " + err.Error()
		return false, detail
	}
	defer sess.close()
	detail["model_solver"] = solver
	detail["model_kind"] = "model of a sat answer"
	if sess.base != "sat" {
		detail["model_kind"] = "candidate model: the solver answered `unknown` (quantified background axioms); only the run of the real code decides"
	}
	m := &modelReader{fc: fc, s: sess, objs: map[string]*rObj{}, blocks: map[string]*rBlock{}}
	defer func() { m.s.close() }() // shaping may have replaced the session
	m.wmark = m.getInt("H0_W")
	if sess.base != "sat" && strings.HasSuffix(solver, "+bare") {
		// the bare query says nothing about cells the path does not load: ask for a well-typed entry heap now
		ok := m.shapeCmds(fc.heapTypingAxioms(false))
		detail["typing_axioms_added_to_bare_candidate"] = ok
		m.wmark = m.getInt("H0_W")
	}
	if sess.base != "sat" {
		// short quantifier ranges, one preference at a time (those the candidate does not satisfy already)
		nShaped := 0
		for _, l := range strings.Split(prefer, "\n") {
			l = strings.TrimSpace(l)
			if !strings.HasPrefix(l, "(assert ") || nShaped >= 6 {
				continue
			}
			t := strings.TrimSuffix(strings.TrimPrefix(l, "(assert "), ")")
			if v, err := m.s.getValues([]string{t}); err == nil && v[0].String() == "false" {
				nShaped++
				if !m.shape(t) {
					// range <= 3 is impossible here (e.g. a list that must have 7 members): settle for <= 8
					if i := strings.LastIndex(t, fmt.Sprintf(" %d)", groundK)); i > 0 {
						m.shape(t[:i] + " 8)" + t[i+len(fmt.Sprintf(" %d)", groundK)):])
					}
				}
			}
		}
		m.wmark = m.getInt("H0_W")
	}
	if n, kept := m.refinePreconditions(spec); n > 0 {
		detail["precondition_refinement"] = fmt.Sprintf("%d instances over the candidate's own ranges; refined candidate accepted: %v", n, kept)
		m.wmark = m.getInt("H0_W")
	}
	m.pin("H0_W", &sx{atom: bignum(m.wmark)}) // later shaping steps must not move the watermark
	g := &genCtx{pkg: fn.Pkg.Pkg, imports: map[string]string{}}
	plan := &replayPlan{g: g, fn: fn, m: m, kind: ob.Kind, name: ob.Name, mode: mode, variants: 1}
	names := paramNames(spec, sig)
	inputs := map[string]string{}
	for i, p := range fn.Params {
		n := p.Name()
		if i < len(names) {
			n = names[i]
		}
		v := m.readVal("p_"+p.Name(), p.Type(), n)
		plan.params = append(plan.params, v)
		inputs[n] = describe(v, 0)
	}
	for _, o := range m.objList {
		inputs[fmt.Sprintf("obj%d (%s at %s)", o.id, shortType(o.typ.String()), o.addr)] = describe(o.val, 0)
	}
	detail["inputs"] = inputs
	var totalBytes int64
	for _, bl := range m.blkList {
		totalBytes += int64(bl.size) * replayElemSize(bl.elem)
	}
	if totalBytes > replayMaxBytes {
		detail["note"] = fmt.Sprintf("the model implies allocations of %d MB in total (limit %d MB): not replayed", totalBytes>>20, replayMaxBytes>>20)
		return false, detail
	}
	detail["model_terms_read"] = m.nterms
	detail["model_shaping_steps"] = m.shapes % 1000
	m.s.close()
	if len(m.notes) > 0 {
		detail["approximations"] = m.notes
	}
	if len(m.info) > 0 {
		detail["remarks"] = m.info
	}
	for _, i := range m.info {
		if strings.Contains(i, "candidate contents") {
			plan.variants = 24
		}
	}
	// every type that must be written down has to be nameable from the package
	for _, p := range fn.Params {
		g.typeStr(p.Type())
	}
	for i := 0; i < sig.Results().Len(); i++ {
		g.typeStr(sig.Results().At(i).Type())
	}

	// 2. clauses
	env := &trEnv{vars: map[string]trVar{}, pkg: fn.Pkg.Pkg}
	for i, p := range fn.Params {
		if i < len(names) {
			env.vars[names[i]] = trVar{code: fmt.Sprintf("govcArg%d", i), typ: p.Type()}
		}
	}
	preTr := &specTr{g: g, fc: fc}
	allPre := true
	if spec != nil {
		for _, cl := range spec.Requires {
			code, err := preTr.translate(cl.E, env)
			pc := planClause{text: cl.Text, code: code}
			if err != nil {
				pc.code, pc.why = "", err.Error()
				allPre = false
			}
			plan.pre = append(plan.pre, pc)
		}
	}
	var clauseNotes []string
	for _, pc := range plan.pre {
		if pc.code == "" {
			clauseNotes = append(clauseNotes, fmt.Sprintf("precondition not checked at run time (%s): %s", pc.why, oneLine(pc.text)))
		}
	}
	if ob.Pos != "" {
		if i := strings.LastIndex(ob.Pos, ":"); i > 0 {
			plan.posFile = filepath.Base(ob.Pos[:i])
			plan.posLine, _ = strconv.Atoi(ob.Pos[i+1:])
		}
	}
	switch mode {
	case "panic-at":
		if plan.posFile == "" {
			detail["note"] = "the obligation has no source position: a panic could not be attributed to it"
			return false, detail
		}
	case "panic-spec", "panic-iff":
		if spec == nil || len(spec.PanicsWhen) == 0 {
			detail["note"] = "no `panics when` clause found for " + ob.Name
			return false, detail
		}
		var e Expr
		var texts []string
		for _, cl := range spec.PanicsWhen {
			texts = append(texts, cl.Text)
			if e == nil {
				e = cl.E
			} else {
				e = &EBinary{"||", e, cl.E}
			}
		}
		tr := &specTr{g: g, fc: fc, n: preTr.n}
		code, err := tr.translate(e, env)
		if err != nil {
			detail["note"] = "the documented panic condition is not expressible in Go: " + err.Error()
			detail["clause_expressible"] = false
			return false, detail
		}
		plan.clause = &planClause{text: strings.Join(texts, " || "), code: code}
		if mode == "panic-spec" && plan.posFile == "" {
			detail["note"] = "the obligation has no source position"
			return false, detail
		}
	case "post":
		var cl *Clause
		if spec != nil && ob.Kind == "post" {
			for i := range spec.Ensures {
				if spec.Ensures[i].Text == ob.Text {
					cl = &spec.Ensures[i]
				}
			}
		}
		if ob.Kind == "hint" {
			cl = replayReturnHint(spec, ob)
		}
		if cl == nil {
			detail["note"] = "postcondition clause of " + ob.Name + " not found in the contract"
			return false, detail
		}
		penv := env.child()
		for i := 0; i < sig.Results().Len(); i++ {
			v := trVar{code: fmt.Sprintf("govcRes%d", i), typ: sig.Results().At(i).Type()}
			penv.vars[resultName(sig, i)] = v
			penv.vars[fmt.Sprintf("result%d", i)] = v
			if i == sig.Results().Len()-1 && isErrorType(v.typ) {
				penv.vars["err"] = v
			}
		}
		tr := &specTr{g: g, fc: fc, post: true, n: preTr.n}
		code, err := tr.translate(cl.E, penv)
		if err != nil {
			detail["note"] = "the violated clause is not expressible in Go (" + err.Error() + "): " + oneLine(cl.Text)
			detail["clause_expressible"] = false
			return false, detail
		}
		plan.clause = &planClause{text: cl.Text, code: code}
		plan.hoists = tr.hoists
	}
	detail["clause_expressible"] = true
	if len(clauseNotes) > 0 {
		detail["unchecked_preconditions"] = clauseNotes
	}
	if !allPre && sess.base != "sat" {
		detail["note"] = "candidate model of an `unknown` answer and a precondition cannot be checked at run time: a failure could not be attributed to the code"
		return false, detail
	}
	if !allPre && len(m.notes) > 0 {
		detail["note"] = "the input was reconstructed approximately and a precondition cannot be checked at run time: a failure could not be attributed to the code"
		return false, detail
	}

	// 3. run
	src := plan.source()
	detail["test_source"] = src
	failed, out := runReplayTest(repo, pkgDir, src)
	detail["test_output"] = truncate(out, 8000)
	detail["real_code_fails"] = failed
	if !failed {
		detail["note"] = replayOutcome(out)
	}
	return failed, detail
}

func replayReturnHint(spec *FuncSpec, ob *Obligation) *Clause {
	if spec == nil {
		return nil
	}
	for i := range spec.Hints {
		if spec.Hints[i].Where == "return" && spec.Hints[i].Clause.Text == ob.Text {
			return &spec.Hints[i].Clause
		}
	}
	return nil
}

func replayOutcome(out string) string {
	var ls []string
	for _, l := range strings.Split(out, "\n") {
		if strings.HasPrefix(l, "GOVC-REPLAY") {
			ls = append(ls, l)
		}
	}
	if len(ls) == 0 {
		if strings.Contains(out, "[build failed]") || strings.Contains(out, "[setup failed]") {
			return "the generated test does not compile (see test_output)"
		}
		return "the test ended without a verdict (crash, timeout or exit inside the function; see test_output)"
	}
	if len(ls) > 3 {
		ls = append(ls[:2], ls[len(ls)-1])
	}
	return strings.Join(ls, " | ")
}

// openModelSession starts an interactive solver on the obligation's query. A `sat` answer gives a model; when the
// obligation was not decided (unknown / timeout: quantified background axioms), z3 with model-based quantifier
// instantiation switched off stops after E-matching with `unknown` and a CANDIDATE model, which is good enough to try on
// the real code (only the run decides).
func openModelSession(ob *Obligation, script, light, typing, looseExtra, smallExtra, prefer string, deadline time.Time, skip map[string]bool) (*smtSession, string, error) {
	type cand struct {
		name      string
		args      []string
		candidate bool // accept `unknown` + model
		short     bool // with the preference for short quantifier ranges
		small     bool // with the preference for short slices everywhere
		full      bool // with the quantified lemmas of earlier obligations
		bare      bool // the obligation's query as it is
	}
	exact := []cand{
		{name: "z3-new", args: []string{"z3-new", "-in"}},
		{name: "z3-new/noauto", args: []string{"z3-new", "-in", "smt.auto_config=false"}},
		{name: "z3", args: []string{"z3", "-in"}},
	}
	loose := []cand{
		{name: "z3-new/mbqi=false", args: []string{"z3-new", "-in", "smt.mbqi=false"}, candidate: true},
		// the old arithmetic core gives up on nonlinear terms (x % len) quickly instead of searching for minutes
		{name: "z3-new/mbqi=false,arith.solver=2", args: []string{"z3-new", "-in", "smt.mbqi=false", "smt.auto_config=false", "smt.arith.solver=2"}, candidate: true},
		{name: "z3/mbqi=false", args: []string{"z3", "-in", "smt.mbqi=false"}, candidate: true},
	}
	var order []cand
	if ob.Result != nil && ob.Result.Verdict == "sat" {
		for _, c := range exact {
			if c.name == ob.Result.Solver {
				order = append(order, c)
			}
		}
		for _, c := range exact {
			if len(order) == 0 || c.name != order[0].name {
				order = append(order, c)
			}
		}
	}
	// every attempt runs in a fresh solver (a timed-out attempt slows the following ones down a lot): first with the
	// preferences for short quantifier ranges and small data (cheap when satisfiable), then without
	// Candidate attempts run ONE AFTER THE OTHER in short time slices (measured on this sandbox: eight z3 processes side by
	// side turn a 4 s query into a >90 s one); an attempt that is going to succeed normally does so within seconds.
	// E-matching is chaotic: any addition (typing axioms, ground instances, leaving lemmas out) can turn a 4 s search into a
	// minutes-long one or vice versa. So: first the bare query, then the helped ones, then the query + typing axioms only.
	order = append(order, loose...)
	for _, c := range []cand{loose[1], loose[0]} {
		c.name += "+bare"
		c.bare = true
		order = append(order, c)
	}
	for _, c := range []cand{loose[1]} {
		c.name += "+plain"
		c.full = true
		order = append(order, c)
	}
	// preferences for small data and short quantifier ranges
	if strings.TrimSpace(prefer) != "" {
		p := loose[0]
		p.name += "+small-data+short-ranges"
		p.short, p.small = true, true
		order = append(order, p)
	}
	// (push 1) right after set-logic selects z3's incremental core, which keeps a candidate model after `unknown`
	script = strings.Replace(script, "(set-logic ALL)\n", "(set-logic ALL)\n(push 1)\n", 1) + "\n"
	light = strings.Replace(light, "(set-logic ALL)\n", "(set-logic ALL)\n(push 1)\n", 1) + "\n"
	var mu sync.Mutex
	var started []*smtSession
	// one attempt in a fresh solver; returns the session on success
	attempt := func(c cand, per time.Duration) (*smtSession, string) {
		s, err := startSession(c.name, c.args, time.Now().Add(per))
		if err != nil {
			return nil, err.Error()
		}
		mu.Lock()
		started = append(started, s)
		mu.Unlock()
		sc := script
		if c.candidate {
			sc = light + looseExtra // replay_ground.go: heap typing axioms + ground instances of the preconditions
		}
		if c.small {
			sc = light + smallExtra
		}
		if c.candidate && strings.Contains(c.name, "arith.solver=2") {
			sc = script + looseExtra // this configuration has done better WITH the quantified lemmas
		}
		if c.full {
			sc = script + typing // no ground instances either: the plain query plus facts about the entry heap
		}
		if c.bare {
			sc = script
		}
		if c.short {
			sc += prefer
		}
		if d := os.Getenv("GOVC_REPLAY_DEBUG"); d != "" {
			os.WriteFile(filepath.Join(d, "replay-session-"+mangle(c.name)+".smt2"), []byte(sc+"(check-sat)\n"), 0o644)
		}
		if err := s.write(sc); err != nil {
			s.close()
			return nil, err.Error()
		}
		t0 := time.Now()
		r := s.checkSat()
		if replayDebug {
			fmt.Fprintf(os.Stderr, "replay: solver %s answered %q after %.1fs\n", c.name, truncate(r, 60), time.Since(t0).Seconds())
		}
		if r == "unknown" && !s.incompleteOnly() {
			r = "unknown (gave up: no usable candidate)"
		}
		if r == "sat" || (r == "unknown" && c.candidate) {
			if _, err := s.getValues([]string{"H0_W"}); err == nil {
				s.base = r
				s.args, s.script = c.args, sc
				return s, ""
			}
			r += " (no model available)"
		}
		s.close()
		return nil, c.name + ": " + truncate(r, 200)
	}
	var last string
	// solvers that can confirm a `sat` answer: one after the other (the first one normally answers at once)
	var racers []cand
	for _, c := range order {
		if skip[c.name] {
			continue
		}
		if c.candidate {
			racers = append(racers, c)
			continue
		}
		per := time.Until(deadline) / 4
		if per > 25*time.Second {
			per = 25 * time.Second
		}
		if s, why := attempt(c, per); s != nil {
			s.deadline = deadline
			return s, c.name, nil
		} else {
			last = why
		}
	}
	// candidate models: sequential time slices; 60 s are kept for reading the model
	for _, c := range racers {
		left := time.Until(deadline) - 60*time.Second
		if left < 8*time.Second {
			last += " | no time left for " + c.name
			break
		}
		per := 20 * time.Second
		if c.full || c.short || c.bare {
			per = 13 * time.Second
		}
		if per > left {
			per = left
		}
		if s, why := attempt(c, per); s != nil {
			s.deadline = deadline
			return s, c.name, nil
		} else {
			last += " | " + why
		}
	}
	_ = started
	return nil, "", fmt.Errorf("no solver produced a model or candidate model (%s)", strings.TrimPrefix(last, " | "))
}

// runReplayTest injects zz_govc_replay_test.go into the package with -overlay and runs TestGovcReplay. The real code
// "fails" only if the test fails AND printed its REPRODUCED marker (a build error or a crash is not a reproduction).
func runReplayTest(repo, pkg, src string) (bool, string) {
	dir, err := os.MkdirTemp("", "govc-replay")
	if err != nil {
		return false, err.Error()
	}
	defer os.RemoveAll(dir)
	testFile := filepath.Join(dir, "zz_govc_replay_test.go")
	os.WriteFile(testFile, []byte(src), 0o644)
	ov := map[string]any{"Replace": map[string]string{filepath.Join(repo, pkg, "zz_govc_replay_test.go"): testFile}}
	ovData, _ := json.Marshal(ov)
	ovFile := filepath.Join(dir, "ov.json")
	os.WriteFile(ovFile, ovData, 0o644)
	ctx, cancel := context.WithTimeout(context.Background(), replayTestBudget)
	defer cancel()
	cmd := exec.CommandContext(ctx, "bash", "-c", fmt.Sprintf("ulimit -v 8000000; cd %s && exec go1.26.8 test -mod=vendor -overlay %s -vet=off -count=1 -timeout 60s -v -run '^TestGovcReplay$' ./%s", repo, ovFile, pkg))
	cmd.Env = append(os.Environ(), "GOFLAGS=-mod=vendor", "GOTOOLCHAIN=local", "GOPROXY=off", "GOSUMDB=off", "GOMEMLIMIT=2GiB")
	cmd.WaitDelay = 5 * time.Second
	var out bytes.Buffer
	cmd.Stdout = &out
	cmd.Stderr = &out
	err = cmd.Run()
	o := out.String()
	if ctx.Err() != nil {
		o += "\n(govc: replay test killed after " + replayTestBudget.String() + ")"
	}
	return err != nil && strings.Contains(o, "GOVC-REPLAY: REPRODUCED"), o
}

var _ = types.Typ
var _ *ssa.Function
