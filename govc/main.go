package main

import (
	"flag"
	"fmt"
	"os"
	"sort"
	"strings"
)

func main() {
	if len(os.Args) > 1 && os.Args[1] == "check" {
		os.Exit(checkMain(os.Args[2:]))
	}
	repo := flag.String("repo", "/repo", "repository")
	trusted := flag.String("trusted", "/verif/govc/trusted", "trusted spec dir")
	fnKey := flag.String("func", "", "function key(s) to verify, comma separated")
	out := flag.String("out", "/verif/out/dev", "output dir")
	dump := flag.Bool("dump", false, "keep smt files")
	list := flag.String("list", "", "list function keys containing substring")
	shadowed := flag.Bool("shadowed", false, "print contracts that are shadowed by another contract of the same function (duplicates across files)")
	lemma := flag.String("lemma", "", "lemma name to check")
	timeout := flag.Int("t", 10, "solver timeout (s)")
	ssaDump := flag.String("ssa", "", "print SSA of function key(s)")
	propFlag := flag.String("prop", "", "verify every function and lemma tagged with this property")
	only := flag.String("only", "", "development aid (never used by `check`): solve only the obligations whose name contains this substring; the others are reported as skipped")
	replayFlag := flag.Bool("replay", false, "with -func: replay every obligation that failed with a model on the real code")
	replayOb := flag.String("replayob", "", "with -func: do not solve; replay the obligation with this name (or name suffix, e.g. '#safe:index[1]') directly")
	flag.Parse()
	eng, err := loadEngine(*repo, findSpecFiles(*trusted))
	if err != nil {
		fmt.Fprintln(os.Stderr, "error:", err)
		os.Exit(2)
	}
	if *shadowed {
		for _, sh := range eng.contracts.Shadowed {
			fmt.Println(sh)
		}
		return
	}
	if *list != "" {
		var ks []string
		for k, f := range eng.funcByKey {
			if strings.Contains(k, *list) {
				ks = append(ks, fmt.Sprintf("%s (%d blocks)", k, len(f.Blocks)))
			}
		}
		sort.Strings(ks)
		fmt.Println(strings.Join(ks, "\n"))
		return
	}
	if *ssaDump != "" {
		for _, k := range strings.Split(*ssaDump, ",") {
			if fn := eng.funcByKey[k]; fn != nil {
				fn.WriteTo(os.Stdout)
			}
		}
		return
	}
	opts := solveOpts{outDir: *out, quickS: *timeout, retryS: *timeout * 2, seed: 1, keep: *dump}
	if *lemma != "" {
		for _, l := range eng.contracts.Lemmas {
			if l.Name == *lemma {
				fc, err := eng.lemmaCtx(l)
				if err != nil {
					fmt.Println(err)
					os.Exit(2)
				}
				fc.solveAll(opts, "lemma_"+l.Name)
				report(fc)
			}
		}
		return
	}
	if *propFlag != "" {
		var ks []string
		for _, f := range eng.contracts.funcsWithProp(*propFlag) {
			if !f.Assume && !f.Opaque {
				ks = append(ks, f.Key)
			}
		}
		*fnKey = strings.Join(ks, ",")
		for _, l := range eng.contracts.Lemmas {
			for _, p := range l.Props {
				if p == *propFlag {
					fc, err := eng.lemmaCtx(l)
					if err != nil {
						fmt.Println(err)
						continue
					}
					fc.solveAll(opts, "lemma_"+l.Name)
					report(fc)
				}
			}
		}
	}
	for _, k := range strings.Split(*fnKey, ",") {
		if k == "" {
			continue
		}
		fn := eng.funcByKey[k]
		if fn == nil {
			fmt.Fprintln(os.Stderr, "no function", k)
			os.Exit(2)
		}
		var props []string
		if s := eng.specFor(fn); s != nil {
			props = s.Props
		}
		fc, err := eng.verifyFunc(fn, props)
		if err != nil {
			fmt.Println(err)
			os.Exit(2)
		}
		if *only != "" {
			n := 0
			for _, ob := range fc.obls {
				if !strings.Contains(ob.Name, *only) {
					v := "unsat"
					if ob.Cover {
						v = "sat"
					}
					ob.Result = &SolveResult{Verdict: v, Solver: "skipped"}
					n++
				}
			}
			fmt.Printf("-only %q: %d obligations skipped (NOT verified)\n", *only, n)
		}
		if *replayOb != "" {
			devReplayOne(eng, fc, *replayOb, *repo, *out) // replay_dev.go
			continue
		}
		fc.solveAll(opts, k)
		report(fc)
		if *replayFlag {
			devReplay(eng, fc, *repo, *out) // replay_dev.go
		}
	}
	for _, s := range eng.staleErrs {
		fmt.Println(s)
	}
}

func report(fc *FnCtx) {
	ok, bad := 0, 0
	for _, ob := range fc.obls {
		want := "unsat"
		if ob.Cover {
			want = "sat"
		}
		if ob.Result != nil && ob.Result.Verdict == want {
			ok++
			continue
		}
		bad++
		v := "none"
		att := ""
		if ob.Result != nil {
			v = ob.Result.Verdict
			att = strings.Join(ob.Result.Attempts, " ")
		}
		fmt.Printf("UNDISCHARGED %s [%s] %s -- %s (%s) %s file=%s\n", ob.Name, v, ob.Pos, ob.Text, att, ob.Kind, ob.Known)
	}
	fmt.Printf("%s: %d obligations, %d discharged, %d not\n", funcKeyOrLemma(fc), ok+bad, ok, bad)
	for _, w := range fc.warnings {
		fmt.Println("  warn:", w)
	}
	for _, w := range fc.outOfSubset {
		fmt.Println("  out-of-subset:", w)
	}
	var as []string
	for a := range fc.assumes {
		as = append(as, a)
	}
	sort.Strings(as)
	for _, a := range as {
		fmt.Println("  assume:", a)
	}
}
