package main

// Pure-heap call rule (C28).
//
// A repository function with a `pure` contract and a pointer / slice / interface argument (e.g. (*SignedTransaction).TransactionType)
// computes its result from its arguments AND the memory it reads through them. In specs `tx.TransactionType()` denotes the result in the
// state the clause is evaluated in:
//
//     pfh_<key>(H_1, ..., H_n, args...)
//
// an uninterpreted function of the function's READ FOOTPRINT H_1..H_n (the heap components its body may load from, computed
// syntactically and transitively from the SSA) and of its arguments. At a call site in verified code the same term is equated with the
// call's result. Two states that agree on the footprint components therefore give the same value; nothing else is known about it
// except what the contract's ensures clauses say about the result of an actual call.
//
// Soundness: the body must be a deterministic function of (arguments, footprint). The footprint analysis gives up (and the rule is not
// applied: the old state-independent symbol pf_<key>(args) is used, about which nothing is ever assumed for such arguments) when the
// body iterates over a map, uses channels/goroutines/defer, or calls anything that is not a repository function with a body.
// A `pure` contract already obliges the function to modify nothing.

import (
	"go/token"
	"go/types"
	"sort"

	"golang.org/x/tools/go/ssa"
)

const (
	addrUnknown = iota
	addrCons    // Base / Fld address: the cell lives in a C| component
	addrElem    // Elem address: the cell lives in a B| component
)

func addrKindOf(v ssa.Value) int {
	switch v.(type) {
	case *ssa.FieldAddr, *ssa.Alloc, *ssa.Global:
		return addrCons
	case *ssa.IndexAddr:
		return addrElem
	}
	return addrUnknown
}

// loadComps lists the heap components that fc.load(addr, t) reads for an address of the given kind (mirrors fc.load).
func (fc *FnCtx) loadComps(kind int, t types.Type, out map[string]bool) {
	t = types.Unalias(t)
	if isStructT(t) {
		u := t.Underlying().(*types.Struct)
		for i := 0; i < u.NumFields(); i++ {
			fc.loadComps(addrCons, u.Field(i).Type(), out)
		}
		return
	}
	if a, ok := isArrayT(t); ok {
		if isLeaf(a.Elem()) {
			k, s := fc.bKey(a.Elem())
			fc.registerComp(k, s)
			out[k] = true
			return
		}
		if a.Len() <= 16 {
			fc.loadComps(addrElem, a.Elem(), out)
		}
		return
	}
	ck, cs := fc.cKey(t)
	bk, bs := fc.bKey(t)
	if kind != addrElem {
		fc.registerComp(ck, cs)
		out[ck] = true
	}
	if kind != addrCons {
		fc.registerComp(bk, bs)
		out[bk] = true
	}
}

// readFootprint collects the components fn may read; false when the body is outside what the rule supports.
func (fc *FnCtx) readFootprint(fn *ssa.Function, out map[string]bool, seen map[*ssa.Function]bool) bool {
	if seen[fn] {
		return true
	}
	seen[fn] = true
	if len(fn.Blocks) == 0 || !fc.eng.isRepoFunc(fn) {
		return false
	}
	for _, b := range fn.Blocks {
		for _, in := range b.Instrs {
			switch x := in.(type) {
			case *ssa.UnOp:
				if x.Op == token.MUL {
					fc.loadComps(addrKindOf(x.X), x.X.Type().Underlying().(*types.Pointer).Elem(), out)
				}
				if x.Op == token.ARROW {
					return false
				}
			case *ssa.Lookup:
				if mt, ok := x.X.Type().Underlying().(*types.Map); ok {
					mh, mv := fc.mapComps(mt)
					out[mh], out[mv] = true, true
				}
			case *ssa.Next:
				if !x.IsString {
					return false // iteration order of a map is not a function of the state
				}
			case *ssa.Go, *ssa.Select, *ssa.Send, *ssa.MakeChan, *ssa.Defer, *ssa.RunDefers, *ssa.MakeClosure, *ssa.TypeAssert:
				return false
			case *ssa.Call:
				c := x.Common()
				if bi, ok := c.Value.(*ssa.Builtin); ok {
					switch bi.Name() {
					case "len", "cap":
						if _, isMap := c.Args[0].Type().Underlying().(*types.Map); isMap {
							fc.registerComp("ML", "(Array Ptr Int)")
							out["ML"] = true
						}
					case "append", "copy":
						for _, a := range c.Args {
							if sl, ok := a.Type().Underlying().(*types.Slice); ok {
								if !isLeaf(sl.Elem()) {
									return false
								}
								k, s := fc.bKey(sl.Elem())
								fc.registerComp(k, s)
								out[k] = true
							}
						}
					case "min", "max":
					default:
						return false
					}
					continue
				}
				callee := c.StaticCallee()
				if c.IsInvoke() || callee == nil {
					return false
				}
				if !fc.readFootprint(callee, out, seen) {
					return false
				}
			}
		}
	}
	return true
}

// pureHeapComps returns the sorted read footprint of the pure function key (cached per verification context).
func (fc *FnCtx) pureHeapComps(key string) ([]string, bool) {
	if fc.pureHeap == nil {
		fc.pureHeap = map[string][]string{}
		fc.pureHeapBad = map[string]bool{}
	}
	if cs, ok := fc.pureHeap[key]; ok {
		return cs, true
	}
	if fc.pureHeapBad[key] {
		return nil, false
	}
	fn := fc.eng.funcByKey[key]
	out := map[string]bool{}
	if fn == nil || !fc.readFootprint(fn, out, map[*ssa.Function]bool{}) {
		fc.pureHeapBad[key] = true
		return nil, false
	}
	var cs []string
	for k := range out {
		cs = append(cs, k)
	}
	sort.Strings(cs)
	fc.pureHeap[key] = cs
	return cs, true
}

// valueLikeArgs: no argument is a pointer, slice or interface (the result can only depend on the argument values).
func (fc *FnCtx) valueLikeArgs(args []SV) bool {
	for _, a := range args {
		switch fc.tc.sortOfSV(a) {
		case "Ptr", "Slice", "Iface":
			return false
		}
	}
	return true
}

// pureHeapTerm builds pfh_<key>(footprint components in state st, args); ok == false when the rule does not apply.
func (fc *FnCtx) pureHeapTerm(key string, st *State, args []SV, rt types.Type) (string, bool) {
	if fc.valueLikeArgs(args) {
		return "", false
	}
	comps, ok := fc.pureHeapComps(key)
	if !ok {
		return "", false
	}
	var sorts, ts []string
	for _, k := range comps {
		sorts = append(sorts, fc.comps[k])
		ts = append(ts, fc.comp(st, k, fc.comps[k]))
	}
	for _, a := range args {
		sorts = append(sorts, fc.tc.sortOfSV(a))
		ts = append(ts, a.t)
	}
	name := "pfh_" + mangle(key)
	fc.eng.declareUF(fc, name, sorts, fc.tc.sortOf(rt))
	fc.assumes["pure-heap rule: "+key+" is a deterministic function of its arguments and of the heap components its body reads (syntactic read footprint)"] = true
	return app(name, ts...), true
}
