package main

import (
	"go/types"
	"strings"
)

// Additions made for C09 (verification cache, generic dependency methods).

// stripRecvTypeArgs: the key of a method of a generic type is written without the type parameter list:
// `(*github.com/dgraph-io/ristretto/v2.Cache[K, V]).Get` (origin) and `(*….Cache[[]byte, any]).Get` (instance) both become
// `(*github.com/dgraph-io/ristretto/v2.Cache).Get`, which is what a contract header `func (c *Cache) Get(key)` produces.
// Only the receiver part (between the leading parenthesis and its match) is touched.
func stripRecvTypeArgs(s string) string {
	if !strings.HasPrefix(s, "(") {
		return s
	}
	depth, end := 0, -1
	for i, c := range s {
		if c == '(' {
			depth++
		} else if c == ')' {
			depth--
			if depth == 0 {
				end = i
				break
			}
		}
	}
	if end < 0 {
		return s
	}
	recv := s[:end]
	i := strings.Index(recv, "[")
	if i < 0 {
		return s
	}
	return recv[:i] + s[end:]
}

// specUnbox: builtin unbox(x, T): the value of dynamic type T held by interface x (what the type assertion x.(T) yields;
// meaningful when typeis(x, T)). Same encoding as the TypeAssert instruction.
func (e *SpecEnv) specUnbox(x SV, t types.Type) SV {
	tc := e.fc.tc
	if tc.sortOf(t) == "Ptr" {
		return SV{t: app("iptr", x.t), typ: t}
	}
	_, unbox := tc.boxFn(t)
	return SV{t: app(unbox, app("iptr", x.t)), typ: t}
}
