package main

import (
	"fmt"
	"go/ast"
	"go/constant"
	"go/token"
	"go/types"
	"os"
	"sort"
	"strings"

	"golang.org/x/tools/go/ssa"
)

// SV is a symbolic value: an SMT term with its Go type.
type SV struct {
	t     string
	typ   types.Type
	tuple []SV
}

type State struct {
	heap map[string]string // component key -> current version term
}

func (s *State) clone() *State {
	n := &State{heap: make(map[string]string, len(s.heap))}
	for k, v := range s.heap {
		n.heap[k] = v
	}
	return n
}

type Obligation struct {
	Name   string
	Kind   string
	Func   string
	Guard  string
	Cond   string
	Props  []string
	Pos    string
	Text   string
	Cover  bool // expected sat
	Index  int  // position in script
	Known  string
	Result *SolveResult
}

type Item struct {
	cmd string
	ob  *Obligation
}

// FnCtx verifies one function (the "root") and everything inlined into it.
type FnCtx struct {
	eng      *Engine
	root     *ssa.Function
	tc       *TypeCtx
	script   []Item
	nfresh   int
	comps    map[string]string // key -> sort
	compList []string
	kindN    map[string]int
	warnings []string
	assumes  map[string]bool // assumed contracts / out-of-subset features used
	outOfSubset []string
	obls     []*Obligation
	globals  map[string]string
	dry      bool
	inlineN  int
	calleesUsed map[string]bool
	bvMode   bool
	ufs      map[string]string
	ufList   []string
	touchLog map[string]bool      // when non-nil: records the heap components read (used to find the footprint of a rec spec function)
	recInfo  map[string][]string  // rec spec function -> heap components it reads
	recBusy  map[string]bool
	ufAxioms map[string]string // per uninterpreted function: an axiom rendered right after its declaration (range well-formedness)
	loopWrites map[string]map[string]bool
	curFrame *Frame
	pureHeap    map[string][]string // pure function key -> sorted read footprint (pureheap.go)
	pureHeapBad map[string]bool
}

type Frame struct {
	lastValRef map[string]*ssa.BasicBlock // localsAt: block of the last value debug ref per source name (reset per call)
	fc       *FnCtx
	hintCallRes []SV // results of the call a `hint after` is attached to (bound as callresult, callresult<i>)
	noPanicOld string // ext_nopanic.go: the `nopanic when` condition of the root function, evaluated in the entry state ("" = none)
	fn       *ssa.Function
	spec     *FuncSpec
	prefix   string
	vals     map[ssa.Value]SV
	out      map[*ssa.BasicBlock]*State
	guard    map[*ssa.BasicBlock]string
	entry    *State
	depth    int
	top      bool
	rets     []retRec
	params   []SV
	loops    map[*ssa.BasicBlock]*loopInfo
	oldVars  map[string]SV
	defers   []*ssa.Defer
	panicsWhenOld []string
	bindings []SV // closure free variable values
	callerFrame *Frame
	unrollIter map[*ssa.BasicBlock]int
	hintOK     map[int]bool  // `hint return` clauses that could be evaluated at some return
	hintErr    map[int]error // ... and those that could not (a local of the hint is not in scope at that return)
	curBlock *ssa.BasicBlock
	curLocals map[string]func(*State) SV
	curLocalAddrs map[string]SV
	localsSameBlock bool
	frame *frameInfo
	lineHintHits map[int]int // `hint at "line"` clauses: number of program points matched (ext_linehint.go)
	lastCallRes []SV // results of the call a `hint after` clause is attached to (instr.go)
	curVisLoop *loopInfo // the loop whose invariants are being evaluated (spec builtin visited(k), ext_crypto.go)
}

type retRec struct {
	guard   string
	results []SV
	state   *State
}

type loopInfo struct {
	header  *ssa.BasicBlock
	body    map[*ssa.BasicBlock]bool
	ordinal int
	writes  map[string]bool
	all     bool
	entry   *State // state on entry to the loop (merged forward edges, before the havoc): spec builtin loopentry(E), see ext_loopentry.go
}

func (fc *FnCtx) emit(cmd string) {
	if fc.dry {
		return
	}
	fc.script = append(fc.script, Item{cmd: cmd})
}

func (fc *FnCtx) fresh(prefix, sort string) string {
	fc.nfresh++
	name := fmt.Sprintf("%s!%d", prefix, fc.nfresh)
	fc.emit(fmt.Sprintf("(declare-const %s %s)", name, sort))
	return name
}

func (fc *FnCtx) define(prefix, sort, expr string) string {
	if len(expr) < 24 && !strings.Contains(expr, " ") {
		return expr
	}
	fc.nfresh++
	name := fmt.Sprintf("%s!%d", prefix, fc.nfresh)
	if os.Getenv("GOVC_MACRO") != "" {
		fc.emit(fmt.Sprintf("(define-fun %s () %s %s)", name, sort, expr))
		return name
	}
	// a named constant with a defining equation (not a macro): keeps terms small and usable inside patterns
	fc.emit(fmt.Sprintf("(declare-const %s %s)", name, sort))
	fc.emit(fmt.Sprintf("(assert (= %s %s))", name, expr))
	return name
}

func (fc *FnCtx) assume(guard, cond string) {
	c := implies(guard, cond)
	if c == "true" {
		return
	}
	if n := len(fc.script); n > 0 && fc.script[n-1].cmd == "(assert "+c+")" {
		return
	}
	fc.emit("(assert " + c + ")")
}

func (fc *FnCtx) oblige(fr *Frame, kind, label, guard, cond string, pos token.Pos, text string, props []string) {
	if fc.dry {
		return
	}
	if !strings.Contains(label, "§") && (kind == "post" || kind == "hint" || kind == "inv-init" || kind == "inv-keep" || kind == "pre" || kind == "panic-iff") {
		if pieces := splitConj(cond, 24); len(pieces) > 1 {
			for i, pc := range pieces {
				// pieces proved earlier are assumed for the later ones (rendering asserts every checked obligation)
				fc.oblige(fr, kind, fmt.Sprintf("%s§%d", label, i), guard, pc, pos, text, props)
			}
			return
		}
	}
	key := kind
	if label != "" {
		key = kind + ":" + label
	}
	fname := funcKey(fc.root)
	n := fc.kindN[key]
	fc.kindN[key] = n + 1
	name := fmt.Sprintf("%s#%s[%d]", fname, key, n)
	if fr != nil && !fr.top {
		name = fmt.Sprintf("%s#%s@%s[%d]", fname, key, funcKey(fr.fn), n)
	}
	ob := &Obligation{Name: name, Kind: kind, Func: fname, Guard: guard, Cond: cond, Text: text, Props: props}
	if pos.IsValid() {
		p := fc.eng.prog.Fset.Position(pos)
		ob.Pos = fmt.Sprintf("%s:%d", strings.TrimPrefix(p.Filename, "/repo/"), p.Line)
	}
	fc.script = append(fc.script, Item{ob: ob})
	fc.obls = append(fc.obls, ob)
}

func (fc *FnCtx) cover(name, guard string) {
	if fc.dry {
		return
	}
	ob := &Obligation{Name: funcKey(fc.root) + "#cover:" + name, Kind: "cover", Func: funcKey(fc.root), Guard: guard, Cond: "false", Cover: true}
	fc.script = append(fc.script, Item{ob: ob})
	fc.obls = append(fc.obls, ob)
}

// ---------- heap components ----------

func (fc *FnCtx) comp(st *State, key, sort string) string {
	if fc.touchLog != nil {
		fc.touchLog[key] = true
	}
	if _, ok := fc.comps[key]; !ok {
		fc.comps[key] = sort
		fc.compList = append(fc.compList, key)
	}
	if v, ok := st.heap[key]; ok {
		return v
	}
	return compInit(key)
}

func compInit(key string) string { return "H0_" + mangle(key) }

func (fc *FnCtx) cKey(t types.Type) (string, string) {
	return "C|" + fc.tc.leafKey(t), "(Array Ptr " + fc.tc.sortOf(t) + ")"
}
func (fc *FnCtx) bKey(t types.Type) (string, string) {
	return "B|" + fc.tc.leafKey(t), "(Array Ptr (Array Int " + fc.tc.sortOf(t) + "))"
}

func (fc *FnCtx) setComp(st *State, key, sort, val string) {
	if _, ok := fc.comps[key]; !ok {
		fc.comps[key] = sort
		fc.compList = append(fc.compList, key)
	}
	st.heap[key] = fc.define("H_"+mangle(key), sort, val)
	fc.noteWrite(key)
}

func (fc *FnCtx) watermark(st *State) string { return fc.comp(st, "W", "Int") }

// load the value of type t stored at address addr.
func (fc *FnCtx) load(st *State, addr string, t types.Type) string {
	t = types.Unalias(t)
	if isStructT(t) {
		u := t.Underlying().(*types.Struct)
		s := fc.tc.sortOf(t)
		if u.NumFields() == 0 {
			return "mk-" + s
		}
		var fs []string
		for i := 0; i < u.NumFields(); i++ {
			fs = append(fs, fc.load(st, mkFld(addr, fc.tc.fieldKey(t, i)), u.Field(i).Type()))
		}
		return app("mk-"+s, fs...)
	}
	if a, ok := isArrayT(t); ok {
		if isLeaf(a.Elem()) {
			k, s := fc.bKey(a.Elem())
			return app("select", fc.comp(st, k, s), addr)
		}
		// array of arrays/structs: build elementwise (small arrays only)
		if a.Len() > 16 {
			fc.unsupported("load of large array of aggregates " + t.String())
			return fc.fresh("arr", fc.tc.sortOf(t))
		}
		cur := fc.tc.zero(t)
		for i := int64(0); i < a.Len(); i++ {
			cur = app("store", cur, num(i), fc.load(st, mkElem(addr, num(i)), a.Elem()))
		}
		return cur
	}
	ck, cs := fc.cKey(t)
	if par, idx, ok := isElemTerm(addr); ok {
		bk, bs := fc.bKey(t)
		return app("select", app("select", fc.comp(st, bk, bs), par), idx)
	}
	if isConsTerm(addr) {
		return app("select", fc.comp(st, ck, cs), addr)
	}
	bk, bs := fc.bKey(t)
	return ite("((_ is Elem) "+addr+")",
		app("select", app("select", fc.comp(st, bk, bs), app("epar", addr)), app("eix", addr)),
		app("select", fc.comp(st, ck, cs), addr))
}

func (fc *FnCtx) store(st *State, addr string, t types.Type, v string) {
	t = types.Unalias(t)
	if isStructT(t) {
		u := t.Underlying().(*types.Struct)
		s := fc.tc.sortOf(t)
		for i := 0; i < u.NumFields(); i++ {
			fc.store(st, mkFld(addr, fc.tc.fieldKey(t, i)), u.Field(i).Type(), app(fmt.Sprintf("%s_f%d", s, i), v))
		}
		return
	}
	if a, ok := isArrayT(t); ok {
		if isLeaf(a.Elem()) {
			k, s := fc.bKey(a.Elem())
			fc.setComp(st, k, s, app("store", fc.comp(st, k, s), addr, v))
			return
		}
		if a.Len() > 16 {
			fc.unsupported("store of large array of aggregates " + t.String())
			return
		}
		for i := int64(0); i < a.Len(); i++ {
			fc.store(st, mkElem(addr, num(i)), a.Elem(), app("select", v, num(i)))
		}
		return
	}
	ck, cs := fc.cKey(t)
	bk, bs := fc.bKey(t)
	if par, idx, ok := isElemTerm(addr); ok {
		b := fc.comp(st, bk, bs)
		fc.setComp(st, bk, bs, app("store", b, par, app("store", app("select", b, par), idx, v)))
		return
	}
	if isConsTerm(addr) {
		fc.setComp(st, ck, cs, app("store", fc.comp(st, ck, cs), addr, v))
		return
	}
	isE := "((_ is Elem) " + addr + ")"
	b := fc.comp(st, bk, bs)
	c := fc.comp(st, ck, cs)
	fc.setComp(st, bk, bs, ite(isE, app("store", b, app("epar", addr), app("store", app("select", b, app("epar", addr)), app("eix", addr), v)), b))
	fc.setComp(st, ck, cs, ite(isE, c, app("store", c, addr, v)))
}

// havocAt stores an unconstrained well-typed value of type t at addr.
func (fc *FnCtx) havocAt(st *State, guard, addr string, t types.Type) {
	t = types.Unalias(t)
	if isStructT(t) {
		u := t.Underlying().(*types.Struct)
		for i := 0; i < u.NumFields(); i++ {
			fc.havocAt(st, guard, mkFld(addr, fc.tc.fieldKey(t, i)), u.Field(i).Type())
		}
		return
	}
	v := fc.fresh("hv", fc.tc.sortOf(t))
	fc.store(st, addr, t, v)
	fc.assume(guard, fc.tc.wf(v, t, ""))
}

// compsOfType lists the heap components a store of type t may touch.
func (fc *FnCtx) compsOfType(t types.Type, out map[string]bool) {
	t = types.Unalias(t)
	if isStructT(t) {
		u := t.Underlying().(*types.Struct)
		for i := 0; i < u.NumFields(); i++ {
			fc.compsOfType(u.Field(i).Type(), out)
		}
		return
	}
	if a, ok := isArrayT(t); ok {
		if isLeaf(a.Elem()) {
			k, s := fc.bKey(a.Elem())
			fc.registerComp(k, s)
			out[k] = true
			return
		}
		fc.compsOfType(a.Elem(), out)
		return
	}
	ck, cs := fc.cKey(t)
	bk, bs := fc.bKey(t)
	fc.registerComp(ck, cs)
	fc.registerComp(bk, bs)
	out[ck] = true
	out[bk] = true
}

func (fc *FnCtx) registerComp(key, sort string) {
	if _, ok := fc.comps[key]; !ok {
		fc.comps[key] = sort
		fc.compList = append(fc.compList, key)
	}
}

func (fc *FnCtx) havocComps(st *State, keys map[string]bool, all bool) {
	if all {
		for _, k := range fc.compList {
			if k == "W" || strings.HasPrefix(k, "G|v|") || strings.HasPrefix(k, "G|vis|") {
				continue // auxiliary variables of the function under verification: no callee can write them
			}
			st.heap[k] = fc.fresh("H_"+mangle(k), fc.comps[k])
		}
		fc.bumpWatermark(st)
		return
	}
	var ks []string
	for k := range keys {
		ks = append(ks, k)
	}
	sort.Strings(ks)
	for _, k := range ks {
		if k == "W" {
			fc.bumpWatermark(st)
			continue
		}
		s, ok := fc.comps[k]
		if !ok {
			continue
		}
		st.heap[k] = fc.fresh("H_"+mangle(k), s)
	}
}

func (fc *FnCtx) bumpWatermark(st *State) {
	fc.noteWrite("W")
	w := fc.watermark(st)
	nw := fc.fresh("W", "Int")
	fc.assume("true", app(">=", nw, w))
	st.heap["W"] = nw
}

// alloc returns a fresh base pointer.
func (fc *FnCtx) alloc(st *State) string {
	w := fc.watermark(st)
	p := app("Base", w)
	fc.noteWrite("W")
	st.heap["W"] = fc.define("W", "Int", app("+", w, "1"))
	fc.rootAx(p)
	return p
}

func (fc *FnCtx) rootAx(p string) {
	// root is axiomatised in the prelude (pattern-based); nothing to emit
	if true {
		return
	}
	switch {
	case strings.HasPrefix(p, "(Base "):
		fc.assume("true", eq(app("root", p), splitTop(p)[1]))
	case strings.HasPrefix(p, "(Fld "), strings.HasPrefix(p, "(Elem "):
		fc.assume("true", eq(app("root", p), app("root", splitTop(p)[1])))
	}
}

func (fc *FnCtx) fld(p string, t types.Type, i int) string {
	a := mkFld(p, fc.tc.fieldKey(t, i))
	fc.rootAx(a)
	return a
}

func (fc *FnCtx) elem(a, i string) string {
	e := mkElem(a, i)
	fc.rootAx(e)
	return e
}

func (fc *FnCtx) unsupported(what string) {
	for _, w := range fc.outOfSubset {
		if w == what {
			return
		}
	}
	fc.outOfSubset = append(fc.outOfSubset, what)
}

func (fc *FnCtx) warn(format string, args ...any) {
	w := fmt.Sprintf(format, args...)
	for _, x := range fc.warnings {
		if x == w {
			return
		}
	}
	fc.warnings = append(fc.warnings, w)
}

func funcKey(fn *ssa.Function) string {
	s := fn.RelString(nil)
	if o := fn.Origin(); o != nil {
		s = o.RelString(nil)
	}
	s = shortType(s)
	return stripRecvTypeArgs(s) // ext_c09.go: methods of generic types are keyed without the type parameter list
}

// ---------- frame: walking one function body ----------

func (fc *FnCtx) newFrame(fn *ssa.Function, prefix string, depth int, top bool) *Frame {
	return &Frame{fc: fc, fn: fn, prefix: prefix, vals: map[ssa.Value]SV{}, out: map[*ssa.BasicBlock]*State{},
		guard: map[*ssa.BasicBlock]string{}, depth: depth, top: top, spec: fc.eng.specFor(fn), oldVars: map[string]SV{}, unrollIter: map[*ssa.BasicBlock]int{}}
}

func (fr *Frame) name(v ssa.Value) string {
	n := v.Name()
	return fr.prefix + n
}

func isBackEdge(from, to *ssa.BasicBlock) bool { return to.Dominates(from) }

func (fr *Frame) computeLoops() {
	fr.loops = map[*ssa.BasicBlock]*loopInfo{}
	fn := fr.fn
	for _, b := range fn.Blocks {
		for _, s := range b.Succs {
			if isBackEdge(b, s) {
				li := fr.loops[s]
				if li == nil {
					li = &loopInfo{header: s, body: map[*ssa.BasicBlock]bool{s: true}, writes: map[string]bool{}}
					fr.loops[s] = li
				}
				// natural loop: nodes reaching b without passing s
				stack := []*ssa.BasicBlock{b}
				for len(stack) > 0 {
					x := stack[len(stack)-1]
					stack = stack[:len(stack)-1]
					if li.body[x] {
						continue
					}
					li.body[x] = true
					stack = append(stack, x.Preds...)
				}
			}
		}
	}
	// ordinals by source position of header (fallback: block index)
	var hs []*ssa.BasicBlock
	for h := range fr.loops {
		hs = append(hs, h)
	}
	sort.Slice(hs, func(i, j int) bool {
		pi, pj := loopPos(fr.loops[hs[i]]), loopPos(fr.loops[hs[j]])
		if pi != pj {
			return pi < pj
		}
		return hs[i].Index < hs[j].Index
	})
	for i, h := range hs {
		fr.loops[h].ordinal = i
	}
}

func loopPos(li *loopInfo) token.Pos {
	best := token.NoPos
	for b := range li.body {
		for _, in := range b.Instrs {
			if p := in.Pos(); p.IsValid() && (best == token.NoPos || p < best) {
				best = p
			}
		}
	}
	return best
}

func (fr *Frame) rpo() []*ssa.BasicBlock {
	seen := map[*ssa.BasicBlock]bool{}
	var post []*ssa.BasicBlock
	var dfs func(b *ssa.BasicBlock)
	dfs = func(b *ssa.BasicBlock) {
		seen[b] = true
		for _, s := range b.Succs {
			if !seen[s] && !isBackEdge(b, s) {
				dfs(s)
			}
		}
		post = append(post, b)
	}
	dfs(fr.fn.Blocks[0])
	for i, j := 0, len(post)-1; i < j; i, j = i+1, j-1 {
		post[i], post[j] = post[j], post[i]
	}
	return post
}

// edgeCond returns the condition under which control goes from b to succ index i.
func (fr *Frame) edgeCond(b *ssa.BasicBlock, si int) string {
	if len(b.Instrs) == 0 {
		return "true"
	}
	if iff, ok := b.Instrs[len(b.Instrs)-1].(*ssa.If); ok {
		c := fr.val(iff.Cond).t
		if si == 0 {
			return c
		}
		return not(c)
	}
	return "true"
}

func succIndex(b, s *ssa.BasicBlock, nth int) int {
	// returns index of the nth occurrence of s among b.Succs
	c := 0
	for i, x := range b.Succs {
		if x == s {
			if c == nth {
				return i
			}
			c++
		}
	}
	return -1
}

type inEdge struct {
	pred  *ssa.BasicBlock
	pidx  int // index into b.Preds
	guard string
}

func (fr *Frame) inEdges(b *ssa.BasicBlock) (fwd, back []inEdge) {
	occ := map[*ssa.BasicBlock]int{}
	for pi, p := range b.Preds {
		n := occ[p]
		occ[p] = n + 1
		if isBackEdge(p, b) {
			back = append(back, inEdge{pred: p, pidx: pi})
			continue
		}
		g, ok := fr.guard[p]
		if !ok {
			continue // unreachable predecessor
		}
		si := succIndex(p, b, n)
		fwd = append(fwd, inEdge{pred: p, pidx: pi, guard: and(g, fr.edgeCond(p, si))})
	}
	return
}

func (fr *Frame) walk(entry *State, params []SV, entryGuard string) {
	fc := fr.fc
	fn := fr.fn
	fr.entry = entry.clone()
	fr.params = params
	for i, p := range fn.Params {
		fr.vals[p] = params[i]
	}
	fr.computeLoops()
	for _, b := range fr.rpo() {
		if b == fn.Recover {
			continue
		}
		fc.curFrame = fr
		fr.curBlock = b
		var st *State
		if b.Index == 0 {
			st = entry.clone()
			fr.guard[b] = entryGuard
		} else {
			fwd, _ := fr.inEdges(b)
			if len(fwd) == 0 {
				continue
			}
			li := fr.loops[b]
			if li == nil && len(fwd) > 1 && fr.top && isReturnOnlyBlock(b) {
				// a return block that only joins paths: check the postconditions per incoming path (no merged state)
				for _, e := range fwd {
					pst := fr.out[e.pred].clone()
					fr.guard[b] = e.guard
					for _, in := range b.Instrs {
						if phi, ok := in.(*ssa.Phi); ok {
							v := fr.val(phi.Edges[e.pidx])
							v.typ = phi.Type()
							fr.vals[phi] = v
							continue
						}
						fr.exec(in, pst, e.guard)
					}
				}
				continue
			}
			var gs []string
			for _, e := range fwd {
				gs = append(gs, e.guard)
			}
			g := fc.define(fr.prefix+"g"+fmt.Sprint(b.Index), "Bool", or(gs...))
			fr.guard[b] = g
			st = fr.mergeStates(fwd)
			if li != nil {
				// check invariants on entry edges, then havoc
				for _, e := range fwd {
					fr.checkInvariants(li, e, "inv-init")
				}
				li.entry = st.clone()
				lw := fc.loopWrites[fmt.Sprintf("%s#%d", fr.prefix, b.Index)]
				fc.havocComps(st, lw, lw["*"])
				for _, in := range b.Instrs {
					phi, ok := in.(*ssa.Phi)
					if !ok {
						break
					}
					v := fc.fresh(fr.name(phi), fc.tc.sortOf(phi.Type()))
					fr.vals[phi] = SV{t: v, typ: phi.Type()}
					fc.assume(g, fc.tc.wf(v, phi.Type(), fc.watermark(st)))
				}
				fr.assumeInvariants(li, st, g)
				if lw["*"] {
					fr.assumeFrame(st, g, nil)
				} else {
					fr.assumeFrame(st, g, lw)
				}
			} else {
				for _, in := range b.Instrs {
					phi, ok := in.(*ssa.Phi)
					if !ok {
						break
					}
					cur := ""
					for i := len(fwd) - 1; i >= 0; i-- {
						x := fr.val(phi.Edges[fwd[i].pidx]).t
						if cur == "" {
							cur = x
						} else {
							cur = ite(fwd[i].guard, x, cur)
						}
					}
					fr.vals[phi] = SV{t: fc.define(fr.name(phi), fc.tc.sortOf(phi.Type()), cur), typ: phi.Type()}
				}
			}
		}
		g := fr.guard[b]
		ghostDone := map[*GhostUpd]bool{}
		lineHintDone := map[int]bool{}
		for _, in := range b.Instrs {
			if _, ok := in.(*ssa.Phi); ok {
				continue
			}
			if fr.top && fr.spec != nil && fr.spec.hasLineHints() {
				fr.lineHints(in, st, g, lineHintDone)
			}
			if fr.top && fr.spec != nil && len(fr.spec.GhostUpds) > 0 {
				fr.ghostUpdates(in, st, g, ghostDone)
			}
			fr.exec(in, st, g)
		}
		fr.out[b] = st
		// back edges leaving b
		occ := map[*ssa.BasicBlock]int{}
		for si, s := range b.Succs {
			_ = si
			n := occ[s]
			occ[s] = n + 1
			if isBackEdge(b, s) {
				li := fr.loops[s]
				pidx := -1
				c := 0
				for pi, p := range s.Preds {
					if p == b {
						if c == n {
							pidx = pi
						}
						c++
					}
				}
				e := inEdge{pred: b, pidx: pidx, guard: and(g, fr.edgeCond(b, si))}
				if fr.top {
					fc.cover(fmt.Sprintf("backedge@%d", b.Index), e.guard) // vacuity probe: the loop body can be completed
				}
				fr.checkInvariants(li, e, "inv-keep")
				if blw := fc.loopWrites[fmt.Sprintf("%s#%d", fr.prefix, s.Index)]; blw["*"] {
					fr.checkFrame(st, e.guard, fmt.Sprintf("L%d", li.ordinal), loopPos(li), nil)
				} else {
					fr.checkFrame(st, e.guard, fmt.Sprintf("L%d", li.ordinal), loopPos(li), blw)
				}
			}
		}
	}
}

func isReturnOnlyBlock(b *ssa.BasicBlock) bool {
	if len(b.Succs) != 0 || len(b.Instrs) == 0 {
		return false
	}
	if _, ok := b.Instrs[len(b.Instrs)-1].(*ssa.Return); !ok {
		return false
	}
	for _, in := range b.Instrs {
		switch in.(type) {
		case *ssa.Phi, *ssa.DebugRef, *ssa.Return, *ssa.RunDefers, *ssa.UnOp, *ssa.Extract:
		default:
			return false
		}
	}
	return true
}

func (fr *Frame) mergeStates(fwd []inEdge) *State {
	fc := fr.fc
	if len(fwd) == 1 {
		return fr.out[fwd[0].pred].clone()
	}
	st := &State{heap: map[string]string{}}
	keys := map[string]bool{}
	for _, e := range fwd {
		for k := range fr.out[e.pred].heap {
			keys[k] = true
		}
	}
	var ks []string
	for k := range keys {
		ks = append(ks, k)
	}
	sort.Strings(ks)
	for _, k := range ks {
		cur := ""
		same := true
		first := ""
		for i := len(fwd) - 1; i >= 0; i-- {
			v, ok := fr.out[fwd[i].pred].heap[k]
			if !ok {
				v = compInit(k)
			}
			if first == "" {
				first = v
			} else if v != first {
				same = false
			}
			if cur == "" {
				cur = v
			} else {
				cur = ite(fwd[i].guard, v, cur)
			}
		}
		if same {
			st.heap[k] = first
		} else {
			st.heap[k] = fc.define("H_"+mangle(k), fc.comps[k], cur)
		}
	}
	return st
}

// val returns the symbolic value of an SSA value in this frame.
func (fr *Frame) val(v ssa.Value) SV {
	if sv, ok := fr.vals[v]; ok {
		return sv
	}
	fc := fr.fc
	switch x := v.(type) {
	case *ssa.Const:
		return SV{t: fc.constTerm(x), typ: x.Type()}
	case *ssa.Global:
		return SV{t: fc.globalAddr(x), typ: x.Type()}
	case *ssa.Function:
		return SV{t: fc.funcAddr(x), typ: x.Type()}
	case *ssa.FreeVar:
		for i, f := range fr.fn.FreeVars {
			if f == x && i < len(fr.bindings) {
				return fr.bindings[i]
			}
		}
	case *ssa.Builtin:
		return SV{t: nilPtr, typ: x.Type()}
	}
	// unknown value (e.g. defined in a block not yet visited: only possible for unreachable code)
	t := fc.fresh(fr.prefix+"u_"+v.Name(), fc.tc.sortOf(v.Type()))
	sv := SV{t: t, typ: v.Type()}
	fr.vals[v] = sv
	return sv
}

func (fc *FnCtx) globalAddr(g *ssa.Global) string {
	key := g.Pkg.Pkg.Path() + "." + g.Name()
	if a, ok := fc.globals[key]; ok {
		return a
	}
	id := len(fc.globals) + 1
	a := fmt.Sprintf("(Base (- %d))", id)
	fc.globals[key] = a
	return a
}

func (fc *FnCtx) funcAddr(f *ssa.Function) string {
	key := "func:" + f.String()
	if a, ok := fc.globals[key]; ok {
		return a
	}
	id := len(fc.globals) + 1
	a := fmt.Sprintf("(Base (- %d))", id)
	fc.globals[key] = a
	return a
}

func (fc *FnCtx) constTerm(c *ssa.Const) string {
	t := types.Unalias(c.Type())
	if c.Value == nil {
		return fc.tc.zero(t)
	}
	switch u := t.Underlying().(type) {
	case *types.Basic:
		switch {
		case u.Info()&types.IsBoolean != 0:
			if constant.BoolVal(c.Value) {
				return "true"
			}
			return "false"
		case u.Info()&types.IsInteger != 0:
			if v, ok := constant.Int64Val(constant.ToInt(c.Value)); ok {
				return num(v)
			}
			s := constant.ToInt(c.Value).ExactString()
			if strings.HasPrefix(s, "-") {
				return "(- " + s[1:] + ")"
			}
			return s
		case u.Info()&types.IsString != 0:
			return fc.tc.strConst(constant.StringVal(c.Value))
		case u.Info()&types.IsFloat != 0:
			f, _ := constant.Float64Val(c.Value)
			s := fmt.Sprintf("%f", f)
			if f < 0 {
				return "(- " + s[1:] + ")"
			}
			return s
		}
	}
	return fc.tc.zero(t)
}

// ---------- ghost (auxiliary) variables ----------

// sourceLine returns the trimmed text of the source line of pos ("" if unknown).
func (eng *Engine) sourceLine(pos token.Pos) string {
	if !pos.IsValid() {
		return ""
	}
	p := eng.prog.Fset.Position(pos)
	if eng.srcLines == nil {
		eng.srcLines = map[string][]string{}
	}
	ls, ok := eng.srcLines[p.Filename]
	if !ok {
		data, err := os.ReadFile(p.Filename)
		if err == nil {
			ls = strings.Split(string(data), "\n")
		}
		eng.srcLines[p.Filename] = ls
	}
	if p.Line < 1 || p.Line > len(ls) {
		return ""
	}
	return strings.TrimSpace(ls[p.Line-1])
}

// ghostUpdates performs the ghost assignments anchored at the source line of instruction `in` (once per block, before the
// first instruction of that line).
func (fr *Frame) ghostUpdates(in ssa.Instruction, st *State, g string, done map[*GhostUpd]bool) {
	if _, isDbg := in.(*ssa.DebugRef); isDbg {
		return
	}
	fc := fr.fc
	line := fc.eng.sourceLine(in.Pos())
	if line == "" {
		return
	}
	for _, u := range fr.spec.GhostUpds {
		if done[u] || u.Anchor != line {
			continue
		}
		done[u] = true
		u.Hits++
		locals := fr.localsBefore(in)
		fr.curLocals, fr.curLocalAddrs = locals, nil
		env := fr.specEnv(st, fr.entry)
		v := env.evalSafe(u.E.E)
		fr.curLocals = nil
		if v == nil {
			fc.eng.stale(fr.spec, u.E, fmt.Errorf("cannot evaluate ghost update of %s", u.Name))
			continue
		}
		k := "G|v|" + u.Name
		fc.setComp(st, k, "Int", v.t) // the state of a block is path-specific: joins merge by guard
	}
}

// localsBefore: source-level names (debug refs) whose defining block dominates the block of `in`, or that precede `in` in its block.
func (fr *Frame) localsBefore(in ssa.Instruction) map[string]func(*State) SV {
	out := map[string]func(*State) SV{}
	cur := in.Block()
	fc := fr.fc
	for _, b := range fr.fn.DomPreorder() {
		if !b.Dominates(cur) {
			continue
		}
		for _, x := range b.Instrs {
			if x == in {
				break
			}
			if phi, isPhi := x.(*ssa.Phi); isPhi {
				// a named phi of a dominating block (a variable assigned on several paths, e.g. `fresh` after an if/else or at a
				// loop exit) IS the variable's value from here on: it overrides the debug refs of the assignments that flow into it
				if sv, known := fr.vals[phi]; known && phi.Comment != "" && !strings.HasPrefix(phi.Comment, "range") {
					v := sv
					out[phi.Comment] = func(*State) SV { return v }
				}
				continue
			}
			d, ok := x.(*ssa.DebugRef)
			if !ok {
				continue
			}
			id, ok := d.Expr.(*ast.Ident)
			if !ok {
				continue
			}
			sv, known := fr.vals[d.X]
			if !known {
				switch d.X.(type) {
				case *ssa.Const, *ssa.Global:
					sv = fr.val(d.X)
				default:
					continue
				}
			}
			if d.IsAddr {
				pt, ok := d.X.Type().Underlying().(*types.Pointer)
				if !ok {
					continue
				}
				a := sv
				out[id.Name] = func(st *State) SV { return SV{t: fc.load(st, a.t, pt.Elem()), typ: pt.Elem()} }
			} else {
				v := sv
				out[id.Name] = func(*State) SV { return v }
			}
		}
	}
	return out
}
