package main

import (
	"go/types"

	"golang.org/x/tools/go/ssa"
)

// addrTakenLocals: source names of ADDRESS-TAKEN local variables in loop invariants.
//
// A local whose address is taken (`hash[:]`, `&x`) lives in an ssa.Alloc commented with its source name; every read and
// write goes through that cell. The only non-address debug ref such a variable has is the one at its definition
// (`hash := f()` binds the name to f's result), so without this the name would denote the INITIAL value for the whole
// function. Here the name is bound to the current content of the cell (a load in the state the invariant is evaluated
// in). Parameters keep their existing treatment; a name carried by two allocations that both dominate the header is
// ambiguous and left alone.
func (fr *Frame) addrTakenLocals(h *ssa.BasicBlock, out map[string]func(*State) SV, addrs map[string]SV) {
	fc := fr.fc
	isParam := map[string]bool{}
	for _, p := range fr.fn.Params {
		isParam[p.Name()] = true
	}
	for _, fv := range fr.fn.FreeVars {
		isParam[fv.Name()] = true
	}
	found := map[string][]*ssa.Alloc{}
	for _, b := range fr.fn.Blocks {
		if b == h || !b.Dominates(h) {
			continue
		}
		for _, in := range b.Instrs {
			a, ok := in.(*ssa.Alloc)
			if !ok || a.Comment == "" {
				continue
			}
			if isParam[a.Comment] {
				// an address-taken PARAMETER (`snap[:]`): `snap` stays the entry value, `cur_snap` is the current content of
				// its cell (same naming as captured parameters, ext_kviter.go)
				if sv, known := fr.vals[a]; known {
					if pt, ok := a.Type().Underlying().(*types.Pointer); ok {
						name, addr, et := "cur_"+a.Comment, sv.t, pt.Elem()
						if _, dup := out[name]; !dup {
							addrs[name] = SV{t: addr, typ: et}
							out[name] = func(st *State) SV { return SV{t: fc.load(st, addr, et), typ: et} }
						}
					}
				}
				continue
			}
			found[a.Comment] = append(found[a.Comment], a)
		}
	}
	for name, as := range found {
		if len(as) != 1 || !isSourceVarName(fr.fn, name) {
			continue
		}
		sv, known := fr.vals[as[0]]
		if !known {
			continue
		}
		pt, ok := as[0].Type().Underlying().(*types.Pointer)
		if !ok {
			continue
		}
		addr, et := sv.t, pt.Elem()
		addrs[name] = SV{t: addr, typ: et}
		out[name] = func(st *State) SV { return SV{t: fc.load(st, addr, et), typ: et} }
	}
}

// isSourceVarName: the Alloc comment is the name of a declared local variable (not "slicelit", "varargs", "complit",
// "new", "makeslice" … which the SSA builder uses for temporaries): some debug ref of the function names it.
func isSourceVarName(fn *ssa.Function, name string) bool {
	for _, b := range fn.Blocks {
		for _, in := range b.Instrs {
			if d, ok := in.(*ssa.DebugRef); ok {
				if o := d.Object(); o != nil && o.Name() == name {
					if _, isVar := o.(*types.Var); isVar {
						return true
					}
				}
			}
		}
	}
	return false
}
