package main

import "strings"

// T-KV extension: kvstr(s) — the abstract identity (value id) of the byte string held by a Go string.
//
// kvval(b) is an uninterpreted function of (block content, offset, length) of a byte slice; a string obtained by
// `string(b)` is str_of_bytes(block, offset, length) over the same three terms, and `[]byte(s)` allocates a block with
// str_of_bytes(block, 0, len) == s. kvstr is an uninterpreted function Str -> Int and the engine adds, at exactly these
// two conversions, the ground instance of "a value id is the identity of the content":
//     kvstr(string(b)) == kvval(b)           kvval([]byte(s)) == kvstr(s)
// (intended model: id == content, as for kvval; no quantified axiom is emitted). It lets a codec whose text form goes
// through a string (Integer.String / NewIntegerFromString for ASSETTOTAL values) be specified by `uninterp` decode
// functions of the value id, like the byte-level codecs.
//
// The facts are only emitted while verifying a function of a package whose contract files mention kvstr (so that the
// queries of every other package stay byte-for-byte what they were).

func (eng *Engine) pkgUsesKvstr(pkg string) bool {
	if eng.kvstrPkgs == nil {
		eng.kvstrPkgs = map[string]bool{}
		mention := func(p, text string) {
			if strings.Contains(text, "kvstr(") {
				eng.kvstrPkgs[p] = true
			}
		}
		for _, sf := range eng.contracts.SpecFns {
			mention(sf.Pkg, sf.Text)
		}
		for _, f := range eng.contracts.Funcs {
			if f.Trusted {
				continue
			}
			for _, cl := range f.Requires {
				mention(f.Pkg, cl.Text)
			}
			for _, cl := range f.Ensures {
				mention(f.Pkg, cl.Text)
			}
			for _, cl := range f.AssumedEns {
				mention(f.Pkg, cl.Text)
			}
		}
	}
	return eng.kvstrPkgs[pkg]
}

// kvstrFact: called by convert() for string(b) and []byte(s); str is the Str term, (blk, off, n) the byte window.
func (fc *FnCtx) kvstrFact(str, blk, off, n string) {
	if fc.root == nil || fc.root.Pkg == nil {
		return
	}
	path := fc.root.Pkg.Pkg.Path()
	short := path
	if i := strings.Index(path, "/mixin/"); i >= 0 {
		short = path[i+7:]
	}
	if !fc.eng.pkgUsesKvstr(short) && !fc.eng.pkgUsesKvstr(path) {
		return
	}
	fc.eng.declareUF(fc, "kvstr", []string{"Str"}, "Int")
	fc.eng.declareUF(fc, "kvval", []string{"(Array Int Int)", "Int", "Int"}, "Int")
	fc.assumes["trusted model: kvstr(string(b)) == kvval(b) and kvval([]byte(s)) == kvstr(s) (value id == content, ground instances at the conversions)"] = true
	fc.assume("true", eq(app("kvstr", str), app("kvval", blk, off, n)))
}
