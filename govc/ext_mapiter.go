package main

// ext_mapiter.go — "visited" sets for `for k, v := range m` over a map that the loop does not write (added for C02).
//
// The base model of a map range (instr.go: next) yields an arbitrary present key at every iteration and knows nothing at
// loop exit, so "every entry of m was processed" cannot be proved. This extension keeps, per map object, the ghost set of
// keys the CURRENT range statement has already produced:
//
//   it = range m            visited[m] := {}
//   ok, k, v = next it      ok  ==> has(m, k) && !visited[m][k];   visited[m] := visited[m] ∪ {k}     (when ok)
//                           !ok ==> forall k :: has(m, k) ==> visited[m][k]
//
// and the spec builtin `visited(m, k)` (read at the loop head: the keys produced by the iterations completed so far).
// Go guarantees exactly this for a map that is not modified during the iteration (each entry is produced exactly once). If an
// entry is inserted or deleted while ranging, an entry may be skipped, so the two extra facts are ONLY assumed when
//   * the `next` is the loop-header instruction of a natural loop and the `range` instruction lies outside that loop, and
//   * no instruction of the loop body (including callees, by their frames) writes the has-component of that map TYPE
//     (fc.loopWrites, computed in the first pass; a `*` write also disables it).
// Otherwise the behaviour is the base model, unchanged. The visited component is ghost state ("G|it|..."): it is exempt from
// modifies-frames, is havocked at loop heads like any component written in the body, and no program value depends on it.

import (
	"fmt"
	"go/types"

	"golang.org/x/tools/go/ssa"
)

func (fc *FnCtx) mapIterComp(m *types.Map) string {
	ks := fc.tc.sortOf(m.Key())
	key := "G|it|" + mangle(types.TypeString(m.Key(), nil))
	fc.registerComp(key, "(Array Ptr (Array "+ks+" Bool))")
	return key
}

// extRangeInit: `range m` over a map starts with an empty visited set.
func (fr *Frame) extRangeInit(x *ssa.Range, st *State) {
	mt, ok := x.X.Type().Underlying().(*types.Map)
	if !ok {
		return
	}
	fc := fr.fc
	key := fc.mapIterComp(mt)
	ks := fc.tc.sortOf(mt.Key())
	cur := fc.comp(st, key, fc.comps[key])
	empty := "((as const (Array " + ks + " Bool)) false)"
	fc.setComp(st, key, fc.comps[key], app("store", cur, fr.val(x.X).t, empty))
}

// extMapNext: the two facts of an unmodified map and the update of the visited set (see the header comment).
func (fr *Frame) extMapNext(x *ssa.Next, mt *types.Map, m, k, ok string, st *State, g string) {
	fc := fr.fc
	rng, isRange := x.Iter.(*ssa.Range)
	if !isRange {
		return
	}
	li := fr.loops[x.Block()]
	if li == nil || li.body[rng.Block()] {
		return
	}
	mh, _ := fc.mapComps(mt)
	if !fc.dry {
		lw := fc.loopWrites[fmt.Sprintf("%s#%d", fr.prefix, x.Block().Index)]
		if lw["*"] || lw[mh] {
			return // the loop may write a map of this type: no completeness claim
		}
	}
	key := fc.mapIterComp(mt)
	ks := fc.tc.sortOf(mt.Key())
	cur := fc.comp(st, key, fc.comps[key])
	vis := app("select", cur, m)
	has := app("select", fc.comp(st, mh, fc.comps[mh]), m)
	fc.assume(g, implies(ok, not(app("select", vis, k))))
	fc.assume(g, implies(not(ok), fmt.Sprintf("(forall ((vk %s)) (! (=> (select %s vk) (select %s vk)) :pattern ((select %s vk))))", ks, has, vis, has)))
	fc.setComp(st, key, fc.comps[key], app("store", cur, m, ite(ok, app("store", vis, k, "true"), vis)))
	fc.assumes["map range over a map the loop does not write: every entry is produced exactly once (visited sets, ext_mapiter.go)"] = true
}

// mapTypeFact: every non-nil map value of static type t has the tag of t's underlying map type. Conversions between map types
// need identical underlying types, so one object never has two tags: maps of different key/element types are different objects
// (needed to separate len(sigs[index]) from the writes to keySigs: all map lengths live in the one component ML).
func (tc *TypeCtx) mapTypeFact(x string, u *types.Map) string {
	// the tag is found with types.Identical, not by the printed name (map[byte]T and map[uint8]T are the same type)
	seen := mapTypeTags[tc]
	id := -1
	for i, t := range seen {
		if types.Identical(t, u) {
			id = i
			break
		}
	}
	if id < 0 {
		id = len(seen)
		mapTypeTags[tc] = append(seen, u)
	}
	return "(or (= " + x + " " + nilPtr + ") (= (mtype " + x + ") " + num(int64(id+1)) + "))"
}

var mapTypeTags = map[*TypeCtx][]*types.Map{}

// extMapLenEmpty: where the code takes len(m) of a map, a result of 0 means that m has no entry (the length component ML and the
// has-component are otherwise unrelated in the model; every real map state satisfies this).
func (fr *Frame) extMapLenEmpty(mt *types.Map, m, l string, st *State) {
	fc := fr.fc
	mh, _ := fc.mapComps(mt)
	ks := fc.tc.sortOf(mt.Key())
	has := app("select", fc.comp(st, mh, fc.comps[mh]), m)
	fc.assume("true", implies(and(not(eq(m, nilPtr)), eq(l, "0")),
		fmt.Sprintf("(forall ((vk %s)) (! (not (select %s vk)) :pattern ((select %s vk))))", ks, has, has)))
}

// `hint after <callee> E`: E may name the results of that call as callresult0, callresult1, ... and (last result, if an error) callerr.
// (The source-level variables the results are assigned to are not yet updated at the hint point: `err` there still denotes the previous value.)
var hintCallRes = map[*Frame][]SV{}

func bindHintCallResults(fr *Frame, env *SpecEnv) {
	res := hintCallRes[fr]
	for i, r := range res {
		env.vars[fmt.Sprintf("callresult%d", i)] = r
		if i == len(res)-1 && r.typ != nil && isErrorType(r.typ) {
			env.vars["callerr"] = r
		}
	}
}
