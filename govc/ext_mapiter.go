package main

// ext_mapiter.go — two small map facts added for C02 (the visited-set model of map ranges that used to live here was
// replaced by the merged one in ext_crypto.go: `visited(k)`).
//
//   * map type tags: every non-nil map value of static type T satisfies mtype(p) == tag(underlying map type of T) (part of wf),
//     so maps of different key/element types never alias (all map lengths live in the one component ML);
//   * where the code takes len(m) of a map, a result of 0 means that m has no entry (the converse direction, len > 0 ==> some
//     key, is mapLenWitness in ext_c34.go).

import (
	"fmt"
	"go/types"
)

// mapTypeFact: every non-nil map value of static type t has the tag of t's underlying map type. Conversions between map types
// need identical underlying types, so one object never has two tags: maps of different key/element types are different objects
// (needed to separate len(sigs[index]) from the writes to keySigs: all map lengths live in the one component ML).
func (tc *TypeCtx) mapTypeFact(x string, u *types.Map) string {
	// the tag is found with types.Identical, not by the printed name (map[byte]T and map[uint8]T are the same type)
	seen := mapTypeTags[tc]
	id := -1
	for i, t := range seen {
		if types.Identical(t, u) {
			id = i
			break
		}
	}
	if id < 0 {
		id = len(seen)
		mapTypeTags[tc] = append(seen, u)
	}
	return "(or (= " + x + " " + nilPtr + ") (= (mtype " + x + ") " + num(int64(id+1)) + "))"
}

var mapTypeTags = map[*TypeCtx][]*types.Map{}

// extMapLenEmpty: where the code takes len(m) of a map, a result of 0 means that m has no entry (the length component ML and the
// has-component are otherwise unrelated in the model; every real map state satisfies this).
func (fr *Frame) extMapLenEmpty(mt *types.Map, m, l string, st *State) {
	fc := fr.fc
	mh, _ := fc.mapComps(mt)
	ks := fc.tc.sortOf(mt.Key())
	has := app("select", fc.comp(st, mh, fc.comps[mh]), m)
	fc.assume("true", implies(and(not(eq(m, nilPtr)), eq(l, "0")),
		fmt.Sprintf("(forall ((vk %s)) (! (not (select %s vk)) :pattern ((select %s vk))))", ks, has, has)))
}
