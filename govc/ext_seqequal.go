package main

import "go/types"

// bytes.Equal and seq() (added for C32).
//
// seq(s) is "the byte string held by s, as an abstract value": the intended interpretation of the uninterpreted function
// bseq(block, offset, length) is an injective code of the window's content (e.g. its Goedel number), with bcat the code of the
// concatenation; every fact the engine adds for copy/append holds under it. Under that reading
//
//	bytes.Equal(a, b)  <==>  seq(a) == seq(b)
//
// (=> is extensionality, <= injectivity). The engine adds this ground instance at every bytes.Equal call site of a function
// whose specifications mention seq() -- exactly what it already does for kvval() (T-KV) -- so that a comparison made by the code
// (e.g. decodePoint's `bytes.Equal(src, p.Bytes())`) can be related to contracts written with seq(). Listed as a trusted model.
func (fr *Frame) seqEqualFact(key string, args, res []SV, st *State, g string) {
	fc := fr.fc
	if key != "bytes.Equal" || len(args) != 2 || len(res) != 1 {
		return
	}
	if _, used := fc.ufs["bseq"]; !used {
		return
	}
	k, srt := fc.bKey(types.Typ[types.Uint8])
	h := fc.comp(st, k, srt)
	id := func(v SV) string { return app("bseq", app("select", h, sarr(v.t)), soff(v.t), slen(v.t)) }
	fc.assumes["trusted model: bytes.Equal(a, b) <==> seq(a) == seq(b) (seq is an injective code of the byte string)"] = true
	fc.assume(g, eq(res[0].t, eq(id(args[0]), id(args[1]))))
}
