package main

// `uninterp F(...) R reads reach(T)` (C06).
//
// reach(T) lists, for a Go type T, EVERY heap component that a type-safe function can read through a value of type T: T is
// walked through struct fields, pointers, slices, arrays and maps; every leaf type met on the way (integers, strings, pointers,
// slices, maps as pointers, math/big.Int, opaque dependency structs) contributes its cell component C|t and its block component
// B|t, every map type its has/value/length components. This is the coarsest sound footprint for "a deterministic function of
// the memory reachable from its argument": F is a function of all these components (in the state the call is evaluated in)
// and of its explicit arguments. Listing more components only weakens the congruence of F. Interface and function values
// stop the walk with an error (the dynamic type is unknown; not needed so far).
//
// Like every `uninterp … reads` function there is no frame rule: F in two states whose listed components are different
// SMT terms are unrelated (use it where the states are literally the same, or with `uses readsframe`).

import (
	"go/types"
	"sort"
)

func (e *SpecEnv) reachArgs(sf *SpecFn, tname string, n *SpecEnv) (sorts, terms []string) {
	fc := e.fc
	t := n.resolveType(tname)
	comps := map[string]string{}
	seen := map[string]bool{}
	var walk func(t types.Type)
	leaf := func(t types.Type) {
		ck, cs := fc.cKey(t)
		bk, bs := fc.bKey(t)
		comps[ck], comps[bk] = cs, bs
	}
	walk = func(t types.Type) {
		t = types.Unalias(t)
		id := canonTypeString(t)
		if seen[id] {
			return
		}
		seen[id] = true
		if isStructT(t) {
			u := t.Underlying().(*types.Struct)
			for i := 0; i < u.NumFields(); i++ {
				walk(u.Field(i).Type())
			}
			return
		}
		if a, ok := isArrayT(t); ok {
			walk(a.Elem())
			return
		}
		if isBigInt(t) || isOpaqueStruct(t) {
			leaf(t)
			return
		}
		switch u := t.Underlying().(type) {
		case *types.Pointer:
			leaf(t)
			walk(u.Elem())
		case *types.Slice:
			leaf(t)
			walk(u.Elem())
		case *types.Map:
			leaf(t)
			mh, mv := fc.mapComps(u)
			comps[mh], comps[mv], comps["ML"] = fc.comps[mh], fc.comps[mv], "(Array Ptr Int)"
			walk(u.Key())
			walk(u.Elem())
		case *types.Basic:
			leaf(t)
		default:
			e.fail("uninterp %s: reads reach(%s): cannot walk through %s", sf.Name, tname, t.String())
		}
	}
	walk(t)
	var keys []string
	for k := range comps {
		keys = append(keys, k)
	}
	sort.Strings(keys)
	for _, k := range keys {
		fc.registerComp(k, comps[k])
		sorts = append(sorts, comps[k])
		terms = append(terms, fc.comp(e.cur, k, comps[k]))
	}
	return
}
