package main

import (
	"fmt"
	"strings"
	"unicode"
)

// Spec expression AST.
type Expr interface{}

type (
	EIdent  struct{ Name string }
	ENum    struct{ Val string }
	EStr    struct{ Val string }
	EUnary  struct{ Op string; X Expr }
	EBinary struct{ Op string; X, Y Expr }
	ESel    struct{ X Expr; Name string }
	EIndex  struct{ X, I Expr }
	ESlice  struct{ X, Lo, Hi Expr }
	ECall   struct{ Fn Expr; Args []Expr }
	EQuant  struct {
		Forall bool
		Vars   []Binder
		Body   Expr
		Trig   [][]Expr
	}
	EOld struct{ X Expr }
	ELet struct {
		Name string
		Val  Expr
		Body Expr
	}
	EIte struct{ C, A, B Expr }
)

type Binder struct{ Name, Type string }

type tok struct {
	kind string // id num str op eof
	s    string
}

type lexer struct {
	toks []tok
	pos  int
	src  string
}

func lex(src string) ([]tok, error) {
	var out []tok
	i := 0
	ops := []string{"<==>", "==>", "::", "==", "!=", "<=", ">=", "&&", "||", "<<", ">>", "&^", "..", "+", "-", "*", "/", "%", "<", ">", "!", "(", ")", "[", "]", ",", ".", ":", "{", "}", "?", "&", "|", "^"}
	for i < len(src) {
		c := src[i]
		if c == ' ' || c == '\t' || c == '\n' {
			i++
			continue
		}
		if unicode.IsLetter(rune(c)) || c == '_' {
			j := i
			for j < len(src) && (unicode.IsLetter(rune(src[j])) || unicode.IsDigit(rune(src[j])) || src[j] == '_') {
				j++
			}
			out = append(out, tok{"id", src[i:j]})
			i = j
			continue
		}
		if unicode.IsDigit(rune(c)) {
			j := i
			for j < len(src) && (unicode.IsDigit(rune(src[j])) || src[j] == 'x' || src[j] == '_' || (src[j] >= 'a' && src[j] <= 'f') || (src[j] >= 'A' && src[j] <= 'F')) {
				j++
			}
			out = append(out, tok{"num", strings.ReplaceAll(src[i:j], "_", "")})
			i = j
			continue
		}
		if c == '"' {
			j := i + 1
			for j < len(src) && src[j] != '"' {
				j++
			}
			out = append(out, tok{"str", src[i+1 : j]})
			i = j + 1
			continue
		}
		matched := false
		for _, op := range ops {
			if strings.HasPrefix(src[i:], op) {
				out = append(out, tok{"op", op})
				i += len(op)
				matched = true
				break
			}
		}
		if !matched {
			return nil, fmt.Errorf("lex: unexpected %q in %q", c, src)
		}
	}
	out = append(out, tok{"eof", ""})
	return out, nil
}

func parseExpr(src string) (e Expr, err error) {
	toks, err := lex(src)
	if err != nil {
		return nil, err
	}
	p := &lexer{toks: toks, src: src}
	defer func() {
		if r := recover(); r != nil {
			if s, ok := r.(parseErr); ok {
				err = fmt.Errorf("%s in %q", string(s), src)
				return
			}
			panic(r)
		}
	}()
	e = p.expr()
	if p.peek().kind != "eof" {
		p.fail("trailing " + p.peek().s)
	}
	return e, nil
}

type parseErr string

func (p *lexer) fail(msg string) { panic(parseErr(msg)) }
func (p *lexer) peek() tok       { return p.toks[p.pos] }
func (p *lexer) next() tok       { t := p.toks[p.pos]; p.pos++; return t }
func (p *lexer) isOp(s string) bool {
	t := p.peek()
	return t.kind == "op" && t.s == s
}
func (p *lexer) accept(s string) bool {
	if p.isOp(s) {
		p.pos++
		return true
	}
	return false
}
func (p *lexer) expect(s string) {
	if !p.accept(s) {
		p.fail("expected " + s + " got " + p.peek().s)
	}
}

func (p *lexer) expr() Expr {
	t := p.peek()
	if t.kind == "id" && (t.s == "forall" || t.s == "exists") {
		p.next()
		q := &EQuant{Forall: t.s == "forall"}
		for {
			var names []string
			names = append(names, p.ident())
			for p.accept(",") {
				names = append(names, p.ident())
			}
			ty := p.typeName()
			for _, n := range names {
				q.Vars = append(q.Vars, Binder{n, ty})
			}
			if p.isOp("::") {
				break
			}
			p.expect(",")
		}
		p.expect("::")
		if p.accept("{") {
			for {
				var tr []Expr
				tr = append(tr, p.implies())
				for p.accept(",") {
					tr = append(tr, p.implies())
				}
				q.Trig = append(q.Trig, tr)
				p.expect("}")
				if !p.accept("{") {
					break
				}
			}
		}
		q.Body = p.expr()
		return q
	}
	if t.kind == "id" && t.s == "let" {
		p.next()
		name := p.ident()
		p.expect("==")
		v := p.implies()
		if !(p.peek().kind == "id" && p.peek().s == "in") {
			p.fail("expected in")
		}
		p.next()
		return &ELet{name, v, p.expr()}
	}
	return p.implies()
}

func (p *lexer) ident() string {
	t := p.next()
	if t.kind != "id" {
		p.fail("expected identifier got " + t.s)
	}
	return t.s
}

// typeName: [*][]pkg.Name | [N]T | name
func (p *lexer) typeName() string {
	var b strings.Builder
	for {
		if p.accept("*") {
			b.WriteString("*")
			continue
		}
		if p.accept("[") {
			b.WriteString("[")
			if p.peek().kind == "num" {
				b.WriteString(p.next().s)
			}
			p.expect("]")
			b.WriteString("]")
			continue
		}
		break
	}
	id := p.ident()
	b.WriteString(id)
	if id == "map" && p.isOp("[") {
		// map[K]V (ext_crypto.go: map-typed binders, e.g. `forall m map[int]*[32]byte :: ...`)
		p.expect("[")
		b.WriteString("[" + p.typeName() + "]")
		p.expect("]")
		b.WriteString(p.typeName())
		return b.String()
	}
	if p.accept(".") {
		b.WriteString(".")
		b.WriteString(p.ident())
	}
	return b.String()
}

func (p *lexer) implies() Expr {
	x := p.iff()
	if p.accept("==>") {
		y := p.implies()
		return &EBinary{"==>", x, y}
	}
	return x
}

func (p *lexer) iff() Expr {
	x := p.cond()
	for p.accept("<==>") {
		y := p.cond()
		x = &EBinary{"<==>", x, y}
	}
	return x
}

func (p *lexer) cond() Expr {
	x := p.or()
	if p.accept("?") {
		a := p.cond()
		p.expect(":")
		b := p.cond()
		return &EIte{x, a, b}
	}
	return x
}

func (p *lexer) or() Expr {
	x := p.and()
	for p.accept("||") {
		x = &EBinary{"||", x, p.and()}
	}
	return x
}

func (p *lexer) and() Expr {
	x := p.cmp()
	for p.accept("&&") {
		x = &EBinary{"&&", x, p.cmp()}
	}
	return x
}

func (p *lexer) cmp() Expr {
	x := p.add()
	for _, op := range []string{"==", "!=", "<=", ">=", "<", ">"} {
		if p.accept(op) {
			return &EBinary{op, x, p.add()}
		}
	}
	return x
}

func (p *lexer) add() Expr {
	x := p.mul()
	for {
		switch {
		case p.accept("+"):
			x = &EBinary{"+", x, p.mul()}
		case p.accept("-"):
			x = &EBinary{"-", x, p.mul()}
		case p.accept("|"):
			x = &EBinary{"|", x, p.mul()}
		case p.accept("^"):
			x = &EBinary{"^", x, p.mul()}
		default:
			return x
		}
	}
}

func (p *lexer) mul() Expr {
	x := p.unary()
	for {
		switch {
		case p.accept("*"):
			x = &EBinary{"*", x, p.unary()}
		case p.accept("/"):
			x = &EBinary{"/", x, p.unary()}
		case p.accept("%"):
			x = &EBinary{"%", x, p.unary()}
		case p.accept("<<"):
			x = &EBinary{"<<", x, p.unary()}
		case p.accept(">>"):
			x = &EBinary{">>", x, p.unary()}
		case p.accept("&"):
			x = &EBinary{"&", x, p.unary()}
		default:
			return x
		}
	}
}

func (p *lexer) unary() Expr {
	switch {
	case p.accept("!"):
		return &EUnary{"!", p.unary()}
	case p.accept("-"):
		return &EUnary{"-", p.unary()}
	case p.accept("*"):
		return &EUnary{"*", p.unary()}
	case p.accept("&"):
		return &EUnary{"&", p.unary()}
	}
	return p.postfix()
}

func (p *lexer) postfix() Expr {
	x := p.primary()
	for {
		switch {
		case p.accept("."):
			x = &ESel{x, p.ident()}
		case p.accept("["):
			if p.accept(":") {
				hi := p.expr()
				p.expect("]")
				x = &ESlice{x, nil, hi}
				continue
			}
			i := p.expr()
			if p.accept(":") {
				var hi Expr
				if !p.isOp("]") {
					hi = p.expr()
				}
				p.expect("]")
				x = &ESlice{x, i, hi}
				continue
			}
			p.expect("]")
			x = &EIndex{x, i}
		case p.accept("("):
			var args []Expr
			if !p.isOp(")") {
				args = append(args, p.expr())
				for p.accept(",") {
					args = append(args, p.expr())
				}
			}
			p.expect(")")
			if id, ok := x.(*EIdent); ok && id.Name == "old" && len(args) == 1 {
				x = &EOld{args[0]}
			} else {
				x = &ECall{x, args}
			}
		default:
			return x
		}
	}
}

func (p *lexer) primary() Expr {
	t := p.next()
	switch t.kind {
	case "id":
		if t.s == "forall" || t.s == "exists" || t.s == "let" {
			p.pos--
			return p.expr()
		}
		return &EIdent{t.s}
	case "num":
		return &ENum{t.s}
	case "str":
		return &EStr{t.s}
	case "op":
		if t.s == "(" {
			e := p.expr()
			p.expect(")")
			return e
		}
	}
	p.fail("unexpected " + t.s)
	return nil
}

func exprString(e Expr) string {
	switch x := e.(type) {
	case *EIdent:
		return x.Name
	case *ENum:
		return x.Val
	case *EStr:
		return fmt.Sprintf("%q", x.Val)
	case *EUnary:
		return x.Op + exprString(x.X)
	case *EBinary:
		return "(" + exprString(x.X) + " " + x.Op + " " + exprString(x.Y) + ")"
	case *ESel:
		return exprString(x.X) + "." + x.Name
	case *EIndex:
		return exprString(x.X) + "[" + exprString(x.I) + "]"
	case *ESlice:
		lo, hi := "", ""
		if x.Lo != nil {
			lo = exprString(x.Lo)
		}
		if x.Hi != nil {
			hi = exprString(x.Hi)
		}
		return exprString(x.X) + "[" + lo + ":" + hi + "]"
	case *ECall:
		var as []string
		for _, a := range x.Args {
			as = append(as, exprString(a))
		}
		return exprString(x.Fn) + "(" + strings.Join(as, ", ") + ")"
	case *EQuant:
		q := "exists"
		if x.Forall {
			q = "forall"
		}
		var vs []string
		for _, v := range x.Vars {
			vs = append(vs, v.Name+" "+v.Type)
		}
		return q + " " + strings.Join(vs, ", ") + " :: " + exprString(x.Body)
	case *EOld:
		return "old(" + exprString(x.X) + ")"
	case *ELet:
		return "let " + x.Name + " == " + exprString(x.Val) + " in " + exprString(x.Body)
	case *EIte:
		return "(" + exprString(x.C) + " ? " + exprString(x.A) + " : " + exprString(x.B) + ")"
	}
	return "?"
}
