package main

// Additions for C34 / C28 (see README "Additions made for C34/C28"):
//   window(s, N)      the [N]byte array VALUE made of the first N bytes of byte slice s (zero outside [0, N), like every Go array value
//                     in this model). Defined by a pattern-triggered axiom over (block, offset, N); quantifier-free at its use sites.
//   blockof(s)        the block (backing array pointer) of slice s; alias of arr(s).
//   uninterp F(.. s []byte ..)   a slice parameter of leaf element type of an UNINTERPRETED spec function stands for the byte string it
//                     holds in the state the call is evaluated in: it is passed as (block content, offset, length), exactly like seq/kvval.

import (
	"fmt"
	"go/types"
	"strconv"
)

// extBuiltin evaluates the spec builtins added by extension files. ok == false: not one of them.
func (e *SpecEnv) extBuiltin(name string, x *ECall) (SV, bool) {
	fc := e.fc
	switch name {
	case "window":
		if len(x.Args) != 2 {
			e.fail("window(s, N)")
		}
		nl, isNum := x.Args[1].(*ENum)
		if !isNum {
			e.fail("window(s, N): N must be an integer literal")
		}
		n, err := strconv.Atoi(nl.Val)
		if err != nil || n <= 0 {
			e.fail("window(s, N): bad N")
		}
		v := e.eval(x.Args[0])
		sl, isSl := types.Unalias(v.typ).Underlying().(*types.Slice)
		if !isSl || !isByteT(sl.Elem()) {
			e.fail("window of %s (needs a byte slice)", v.typ)
		}
		k, s := fc.bKey(sl.Elem())
		blk := app("select", fc.comp(e.cur, k, s), sarr(v.t))
		fc.declareWindow()
		return SV{t: app("bwin", blk, soff(v.t), num(int64(n))), typ: types.NewArray(types.Typ[types.Uint8], int64(n))}, true
	case "blockof":
		v := e.eval(x.Args[0])
		sl, ok := types.Unalias(v.typ).Underlying().(*types.Slice)
		if !ok {
			e.fail("blockof of non-slice")
		}
		return SV{t: sarr(v.t), typ: types.NewPointer(sl.Elem())}, true
	case "visited":
		return e.visitedBuiltin(x), true
	case "loopentry":
		// loopentry(E): E evaluated in the heap state in which the loop (whose invariant is being evaluated) was entered.
		// Only the heap changes: names of locals keep their current values (loop-carried variables are NOT rewound).
		if len(x.Args) != 1 {
			e.fail("loopentry(E)")
		}
		if e.loopEntry == nil {
			e.fail("loopentry(E) is only meaningful inside a loop invariant")
		}
		n := *e
		n.cur = e.loopEntry
		return n.eval(x.Args[0]), true
	}
	return SV{}, false
}

// declareWindow declares bwin with its defining axiom:
//   bwin(b, o, n)[i] == (0 <= i < n ? b[o + i] : 0)
// Any (b, o, n) determines such an array (arrays are total functions Int -> Int), so the axiom is a definition.
func (fc *FnCtx) declareWindow() {
	fc.eng.declareUF(fc, "bwin", []string{"(Array Int Int)", "Int", "Int"}, "(Array Int Int)")
	if fc.ufAxioms == nil {
		fc.ufAxioms = map[string]string{}
	}
	if _, done := fc.ufAxioms["bwin"]; !done {
		fc.ufAxioms["bwin"] = "(assert (forall ((b (Array Int Int)) (o Int) (n Int) (i Int)) (! (= (select (bwin b o n) i) (ite (and (<= 0 i) (< i n)) (select b (+ o i)) 0)) :pattern ((select (bwin b o n) i)))))"
	}
}

// uninterpArg renders one actual argument of an uninterpreted spec function: values as they are; a slice of leaf elements as the
// byte string it holds in state e.cur (block content, offset, length).
func (e *SpecEnv) uninterpArg(a SV, declared types.Type) (sorts, terms []string) {
	fc := e.fc
	if sl, ok := types.Unalias(declared).Underlying().(*types.Slice); ok && isLeaf(sl.Elem()) && fc.tc.sortOfSV(a) == "Slice" {
		k, s := fc.bKey(sl.Elem())
		blk := app("select", fc.comp(e.cur, k, s), sarr(a.t))
		return []string{"(Array Int " + fc.tc.sortOf(sl.Elem()) + ")", "Int", "Int"}, []string{blk, soff(a.t), slen(a.t)}
	}
	return []string{fc.tc.sortOfSV(a)}, []string{a.t}
}

// mapLenWitness: a Go map of length > 0 contains some key. Added as a ground fact wherever the code evaluates len(m):
//   len(m) > 0 ==> has(m, mapwit(keys of m))
// mapwit is an uninterpreted choice function on key sets. True of every Go map (the length is the number of keys); the model keeps the
// length (ML) and the key set (MH) as separate components, so without this fact a non-empty map without keys would be a model.
func (fc *FnCtx) mapLenWitness(st *State, mt *types.Map, m, l string) {
	mh, _ := fc.mapComps(mt)
	ks := fc.tc.sortOf(mt.Key())
	name := "mapwit_" + mangle(types.TypeString(mt.Key(), nil))
	fc.eng.declareUF(fc, name, []string{"(Array " + ks + " Bool)"}, ks)
	row := app("select", fc.comp(st, mh, fc.comps[mh]), m)
	wit := app(name, row)
	// ... and that key is a well-typed value of the key type (e.g. a string of non-negative length)
	fc.assume("true", implies(app(">", l, "0"), and(app("select", row, wit), fc.tc.wf(wit, mt.Key(), ""))))
}

var _ = fmt.Sprintf
