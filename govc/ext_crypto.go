package main

// Engine extensions made for C12/C13/C14 (crypto package: CoSi nonce, collective signatures, aggregate signatures).
//
//  1. `uninterp F(a T, ...) R reads T1, T2, ...`  an uninterpreted spec function that also depends on the heap: the cell and
//     block components of the listed leaf types (in the state the call is evaluated in) are implicit extra arguments.
//     Listing MORE components only weakens the congruence (sound); the list must cover what the modelled function reads.
//  2. map-typed binders (`forall m map[int]*[32]byte :: ...`): see (*lexer).typeName in specparse.go.
//  3. `range` over a map with a ghost visited set: every iteration yields a present key that was not yet visited, the loop
//     exits only when every present key has been visited, `visited(k)` names the set in the invariants of that loop.
//     Inserting a NEW key into the ranged map inside the loop is an obligation failure (safe:maprange); deleting is allowed.
//     The model is switched off (old behaviour: an arbitrary present key, no exit fact) when the loop body contains a call
//     that may write maps of that type, a dynamic call or a go statement.
//  4. `lockset r.<Mutex> guards f1, f2, ...`: syntactic critical-section check for mutex-guarded receiver fields.

import (
	"fmt"
	"go/token"
	"go/types"
	"strings"

	"golang.org/x/tools/go/ssa"
)

// usesFact: the contract of the function under verification opts in to a family of assumed heap facts (`uses NAME, ...`):
//
//	entryclosure  heap closure of the ENTRY state, as ground instances at the pointer loads / map lookups / map range
//	              steps the code performs: a pointer the entry heap holds at a pre-existing address points to a
//	              pre-existing object (needed to separate `x[i] == old(x[i])` from objects the function allocates)
//	blockframe    whole-block consequences of the frame condition at loop heads (frameBlockCond) and the window frame of
//	              copy() for seq() abstractions (calls.go)
//
// Both are true in every execution; they are opt-in only because every extra quantified fact costs solver time in
// functions that do not need it.
func (fc *FnCtx) usesFact(name string) bool {
	if fc.root == nil {
		return false
	}
	spec := fc.eng.specFor(fc.root)
	return spec != nil && spec.Uses[name]
}

// usesVisited: the ghost visited-set model of map ranges is active for the function under verification iff one of its
// loop invariants mentions visited(...). Other functions keep the plain model (an arbitrary present key per iteration).
func (fc *FnCtx) usesVisited() bool {
	if fc.root == nil {
		return false
	}
	spec := fc.eng.specFor(fc.root)
	if spec == nil {
		return false
	}
	for _, cls := range spec.LoopInv {
		for _, cl := range cls {
			if strings.Contains(cl.Text, "visited(") {
				return true
			}
		}
	}
	return false
}

// ---------- 1. uninterp ... reads ----------

// splitReads splits the tail of an `uninterp` header "R reads T1, T2" into the result type and the read list.
func splitReads(tail string) (string, []string) {
	tail = strings.TrimSpace(tail)
	i := strings.Index(tail, " reads ")
	if i < 0 {
		return tail, nil
	}
	var reads []string
	for _, p := range strings.Split(tail[i+len(" reads "):], ",") {
		if p = strings.TrimSpace(p); p != "" {
			reads = append(reads, strings.ReplaceAll(p, " ", ""))
		}
	}
	return strings.TrimSpace(tail[:i]), reads
}

// readsArgs: the heap components named by the `reads` clause of sf, as (sorts, current terms). For each listed type both
// the cell component (variables / struct fields of that type) and the block component (array and slice elements) are passed.
func (e *SpecEnv) readsArgs(sf *SpecFn, n *SpecEnv) (sorts, terms []string) {
	fc := e.fc
	for _, name := range sf.Reads {
		if strings.HasPrefix(name, "reach(") && strings.HasSuffix(name, ")") {
			// `reads reach(T)`: every component a type-safe function can reach through a value of type T (ext_reach.go)
			rs, rt := e.reachArgs(sf, name[len("reach("):len(name)-1], n)
			sorts, terms = append(sorts, rs...), append(terms, rt...)
			continue
		}
		if strings.HasSuffix(name, "[..]") {
			// `reads p[..]`: only the element block of the slice parameter p (finer than the whole component of its element
			// type: blocks allocated later by the caller do not disturb the value of the function)
			x, err := parseExpr(name[:len(name)-4])
			if err != nil {
				e.fail("uninterp %s: reads %s: %v", sf.Name, name, err)
			}
			v := n.eval(x)
			sl, ok := types.Unalias(v.typ).Underlying().(*types.Slice)
			if !ok || !isLeaf(sl.Elem()) {
				e.fail("uninterp %s: `reads %s` needs a slice of leaf elements", sf.Name, name)
			}
			bk, bs := fc.bKey(sl.Elem())
			fc.registerComp(bk, bs)
			sorts = append(sorts, "(Array Int "+fc.tc.sortOf(sl.Elem())+")")
			terms = append(terms, app("select", fc.comp(e.cur, bk, bs), sarr(v.t)))
			continue
		}
		t := n.resolveType(name)
		if a, ok := isArrayT(t); ok {
			t = a.Elem()
		}
		if mt, ok := types.Unalias(t).Underlying().(*types.Map); ok {
			// `reads map[K]V`: the key-set and value components of maps of that type (the map reference cells follow below)
			hk, vk := fc.mapComps(mt)
			sorts = append(sorts, fc.comps[hk], fc.comps[vk])
			terms = append(terms, fc.comp(e.cur, hk, fc.comps[hk]), fc.comp(e.cur, vk, fc.comps[vk]))
		}
		if !isLeaf(t) {
			e.fail("uninterp %s: `reads %s` must name a leaf type (a struct is read through the types of its fields)", sf.Name, name)
		}
		ck, cs := fc.cKey(t)
		bk, bs := fc.bKey(t)
		fc.registerComp(ck, cs)
		fc.registerComp(bk, bs)
		sorts = append(sorts, cs, bs)
		terms = append(terms, fc.comp(e.cur, ck, cs), fc.comp(e.cur, bk, bs))
	}
	return
}

// readsFrame: frame rule for a heap-reading spec function (uninterp ... reads / rec) w.r.t. the ENTRY state of the function
// under verification (opt-in `uses readsframe`). When the function is applied in a state whose heap arguments differ from
// the entry state's, the implication
//
//	(every pointer argument was allocated before entry) && (the two states agree on every pre-existing cell of the listed
//	components) ==> F[state](args) == F[entry](args)
//
// is assumed for these ground arguments. Soundness (type-safe heap): the value of F depends only on memory reachable from its
// arguments; the arguments pre-exist, every pre-existing cell holds what it held at entry, and a cell of the entry heap only
// points to pre-existing objects (heap closure), so by induction everything F reaches pre-exists and is unchanged: objects
// allocated since entry cannot influence it. Not emitted under a quantifier (the arguments are not ground there).
func (e *SpecEnv) readsFrame(name, retSort string, heapSorts, cur []string, entTerms func(ent *SpecEnv) []string, argSorts []string, args []SV) {
	e.readsFrameArgs(name, retSort, heapSorts, cur, entTerms, argSorts, args, nil)
}

// readsFrameArgs: as readsFrame; argTerms (if not nil) renders the actual arguments in a given state (an uninterpreted spec
// function receives a slice of leaf elements as (block content, offset, length), see uninterpArg: the block content is read
// from the state). Rendered arguments that differ between the two states become premises `cur == entry` of the implication.
func (e *SpecEnv) readsFrameArgs(name, retSort string, heapSorts, cur []string, entTerms func(ent *SpecEnv) []string, argSorts []string, args []SV, argTerms func(env *SpecEnv) []string) {
	fc := e.fc
	if e.inQuant > 0 || !fc.usesFact("readsframe") {
		return
	}
	entEnv := *e
	entEnv.cur = &State{heap: map[string]string{}}
	ent := entTerms(&entEnv)
	if len(ent) != len(cur) {
		return
	}
	w0 := compInit("W")
	var prem []string
	same := true
	for i := range cur {
		if cur[i] == ent[i] {
			continue
		}
		same = false
		if strings.HasPrefix(heapSorts[i], "(Array Ptr ") {
			prem = append(prem, fmt.Sprintf("(forall ((p Ptr)) (! (=> (and (< (root p) %s) (>= (root p) 0)) (= (select %s p) (select %s p))) :pattern ((select %s p))))", w0, cur[i], ent[i], cur[i])) // roots are allocation ids >= 0: same range as the frame condition (frame.go), so that `uses blockframe` discharges this premise
		} else {
			prem = append(prem, eq(cur[i], ent[i]))
		}
	}
	var ats, ets []string
	if argTerms != nil {
		ats, ets = argTerms(e), argTerms(&entEnv)
		if len(ats) != len(ets) || len(ats) != len(argSorts) {
			return
		}
		for i := range ats {
			if ats[i] != ets[i] {
				same = false
				prem = append(prem, eq(ats[i], ets[i]))
			}
		}
	}
	if same {
		return
	}
	for _, a := range args {
		if argTerms == nil {
			ats, ets = append(ats, a.t), append(ets, a.t)
		}
		switch fc.tc.sortOfSV(a) {
		case "Ptr":
			prem = append(prem, app("<", app("root", a.t), w0))
		case "Slice":
			prem = append(prem, app("<", app("root", sarr(a.t)), w0))
		case "Iface":
			prem = append(prem, app("<", app("root", app("iptr", a.t)), w0))
		}
	}
	fc.eng.declareUF(fc, name, append(append([]string{}, heapSorts...), argSorts...), retSort)
	fc.assume("true", implies(and(prem...), eq(app(name, append(append([]string{}, cur...), ats...)...), app(name, append(append([]string{}, ent...), ets...)...))))
	fc.assumes["frame rule for heap-reading spec functions (uses readsframe): objects allocated after entry do not influence "+name] = true
}

// canonTypeString: types.TypeString with the predeclared aliases resolved (byte -> uint8, rune -> int32), so that a map
// type written `map[int]*[32]byte` in the source and the same type built from a spec binder name the same heap component.
func canonTypeString(t types.Type) string {
	switch u := types.Unalias(t).(type) {
	case *types.Basic:
		if int(u.Kind()) < len(types.Typ) && types.Typ[u.Kind()] != nil {
			return types.Typ[u.Kind()].Name()
		}
		return u.Name()
	case *types.Pointer:
		return "*" + canonTypeString(u.Elem())
	case *types.Slice:
		return "[]" + canonTypeString(u.Elem())
	case *types.Array:
		return fmt.Sprintf("[%d]%s", u.Len(), canonTypeString(u.Elem()))
	case *types.Map:
		return "map[" + canonTypeString(u.Key()) + "]" + canonTypeString(u.Elem())
	}
	return types.TypeString(t, nil)
}

// inblockBuiltin: inblock(p, s) <=> p == &arr(s)[i] for some index i of the backing array of slice s (inside or outside the
// window of s). Lets a contract exclude, by Go typing, that e.g. a *Key points into the backing array of a []Hash: the model
// keeps all byte arrays in one heap component, so the types alone do not separate them.
func (e *SpecEnv) inblockBuiltin(x *ECall) SV {
	if len(x.Args) != 2 {
		e.fail("inblock(p, s)")
	}
	p, s := e.eval(x.Args[0]), e.eval(x.Args[1])
	if e.fc.tc.sortOfSV(p) != "Ptr" || e.fc.tc.sortOfSV(s) != "Slice" {
		e.fail("inblock(pointer, slice)")
	}
	return SV{t: and("((_ is Elem) "+p.t+")", eq(app("epar", p.t), sarr(s.t))), typ: boolT}
}

// seqpartBuiltin: seqpart(a, off, n) == seq of the window [off, off+n) of the byte array value / byte slice a, the same
// abstraction as seq() (uninterpreted function of block, offset, length): seqpart(a, 0, len(a)) is seq(a).
func (e *SpecEnv) seqpartBuiltin(x *ECall) SV {
	fc := e.fc
	if len(x.Args) != 3 {
		e.fail("seqpart(a, off, n)")
	}
	v, off, n := e.eval(x.Args[0]), e.eval(x.Args[1]), e.eval(x.Args[2])
	var parts []string
	switch u := types.Unalias(v.typ).Underlying().(type) {
	case *types.Slice:
		if !isByteT(u.Elem()) {
			e.fail("seqpart of %s", v.typ)
		}
		k, s := fc.bKey(u.Elem())
		parts = []string{app("select", fc.comp(e.cur, k, s), sarr(v.t)), plus(soff(v.t), off.t), n.t}
	case *types.Array:
		if !isByteT(u.Elem()) {
			e.fail("seqpart of %s", v.typ)
		}
		parts = []string{v.t, off.t, n.t}
	default:
		e.fail("seqpart of %s", v.typ)
	}
	fc.eng.declareUF(fc, "bseq", []string{"(Array Int Int)", "Int", "Int"}, "Int")
	return SV{t: app("bseq", parts...), typ: mathInt}
}

// frameBlockCond: for a block component K (arrays / slice backing arrays) the frame condition FrameOK_K says that every
// CELL (p, i) outside the modifies clause is unchanged. By array extensionality a block p none of whose cells is named by
// the modifies clause is then unchanged AS A WHOLE: (select h p) == (select h0 p). That consequence is what abstractions of
// whole byte strings (seq, kvval, ...) need; it is only ever ASSUMED together with FrameOK_K (loop heads), never checked.
func (fr *Frame) frameBlockCond(key, h string) string {
	if !fr.fc.usesFact("blockframe") {
		return ""
	}
	fi := fr.frame
	if fi == nil || fi.all || !strings.HasPrefix(key, "B|") {
		return ""
	}
	h0 := compInit(key)
	if h == h0 {
		return ""
	}
	var ex []string
	for _, c := range fi.cells {
		if c.key == key && c.isB {
			if c.pc == "" {
				return "" // no block-level over-approximation of this cell: skip the derived fact
			}
			ex = append(ex, c.pc)
		}
	}
	old := and(app("<", app("root", "p"), fi.w0), app(">=", app("root", "p"), "0"))
	return fmt.Sprintf("(forall ((p Ptr)) (! (=> (and %s (not %s)) (= (select %s p) (select %s p))) :pattern ((select %s p))))", old, or(ex...), h, h0, h)
}

// ---------- 3. map range with a ghost visited set ----------

func mapRangeOfNext(x *ssa.Next) (*ssa.Range, *types.Map) {
	r, ok := x.Iter.(*ssa.Range)
	if !ok || x.IsString {
		return nil, nil
	}
	mt, ok := r.X.Type().Underlying().(*types.Map)
	if !ok {
		return nil, nil
	}
	return r, mt
}

// loopMapRange returns the map Range feeding the `next` in the header of li (nil if li is not a map range loop).
func loopMapRange(li *loopInfo) (*ssa.Next, *ssa.Range, *types.Map) {
	if li == nil {
		return nil, nil, nil
	}
	for _, in := range li.header.Instrs {
		if nx, ok := in.(*ssa.Next); ok {
			if r, mt := mapRangeOfNext(nx); r != nil {
				return nx, r, mt
			}
		}
	}
	return nil, nil, nil
}

func (fr *Frame) visComp(r *ssa.Range, mt *types.Map) (key, sort string) {
	return "G|vis|" + fr.prefix + r.Name(), "(Array " + fr.fc.tc.sortOf(mt.Key()) + " Bool)"
}

// mapRangeSafe: the body of the loop cannot insert into a map of type mt except through MapUpdate instructions of this
// function (which get a safe:maprange obligation): no call that may write such a map, no dynamic call, no goroutine.
func (fr *Frame) mapRangeSafe(li *loopInfo, mt *types.Map) (bool, string) {
	eng := fr.fc.eng
	if !fr.fc.usesVisited() {
		return false, "no invariant of the function mentions visited(...)"
	}
	for b := range li.body {
		for _, in := range b.Instrs {
			switch x := in.(type) {
			case *ssa.Go:
				return false, "go statement in the loop"
			case ssa.CallInstruction:
				c := x.Common()
				if _, isB := c.Value.(*ssa.Builtin); isB {
					continue // delete is allowed; no other builtin inserts
				}
				var key string
				var callee *ssa.Function
				if c.IsInvoke() {
					key = "(" + shortType(types.TypeString(types.Unalias(c.Value.Type()), nil)) + ")." + c.Method.Name()
				} else if callee = c.StaticCallee(); callee != nil {
					key = funcKey(callee)
				} else {
					return false, "dynamic call in the loop"
				}
				if spec := eng.contracts.Funcs[key]; spec != nil && (spec.HasMod || spec.Trusted || spec.Assume) {
					for _, m := range spec.Modifies {
						if m.All || (m.Contents && !m.DelOnly) { // m[-] (ext_c24.go): the callee only deletes entries
							return false, "call to " + key + " (modifies " + m.Text + ")"
						}
					}
					continue
				}
				if callee != nil && len(callee.Blocks) > 0 && eng.isRepoFunc(callee) {
					ws := eng.writeSet(callee)
					if ws.all {
						return false, "call to " + key + " (may write anything)"
					}
					for _, wm := range ws.maps {
						if types.Identical(wm, mt) {
							return false, "call to " + key + " (writes a map of the ranged type)"
						}
					}
					continue
				}
				if eng.knownTotalPure(key) {
					continue
				}
				return false, "call to " + key + " without contract"
			}
		}
	}
	return true, ""
}

func (fr *Frame) mapRangeInit(x *ssa.Range, st *State) {
	mt, ok := x.X.Type().Underlying().(*types.Map)
	if !ok || !fr.fc.usesVisited() {
		return
	}
	k, s := fr.visComp(x, mt)
	fr.fc.setComp(st, k, s, "((as const "+s+") false)")
}

// mapRangeNext models `next` of a map iterator with the visited set. Returns false to fall back to the plain model.
func (fr *Frame) mapRangeNext(x *ssa.Next, rng SV, mt *types.Map, st *State, g string) bool {
	fc := fr.fc
	tc := fc.tc
	r, _ := mapRangeOfNext(x)
	li := fr.loops[x.Block()]
	if r == nil || li == nil || !fc.usesVisited() {
		return false
	}
	if ok, why := fr.mapRangeSafe(li, mt); !ok {
		fc.warn("map range at %s: visited-set model switched off (%s)", fc.eng.pos(r.Pos()), why)
		return false
	}
	mh, mv := fc.mapComps(mt)
	vk, vs := fr.visComp(r, mt)
	ks := tc.sortOf(mt.Key())
	ok := fc.fresh(fr.name(x)+"_ok", "Bool")
	k := fc.fresh(fr.name(x)+"_k", ks)
	hasArr := app("select", fc.comp(st, mh, fc.comps[mh]), rng.t)
	has := app("select", hasArr, k)
	val := fc.define(fr.name(x)+"_v", tc.sortOf(mt.Elem()), app("select", app("select", fc.comp(st, mv, fc.comps[mv]), rng.t), k))
	V := fc.comp(st, vk, vs)
	fc.assume(g, implies(ok, and(not(eq(rng.t, nilPtr)), has, not(app("select", V, k)), tc.wf(k, mt.Key(), fc.watermark(st)), tc.wf(val, mt.Elem(), fc.watermark(st)))))
	// heap closure of the ENTRY state (ground instance for the yielded key): if the ranged map existed at entry and held k
	// then, the value it held then was allocated before entry (no cell of the entry heap points to a later allocation)
	fr.mapEntryClosure(mt, rng.t, k, and(g, ok))
	// an empty map yields no element
	fc.assume(g, implies(eq(app("select", fc.comp(st, "ML", "(Array Ptr Int)"), rng.t), "0"), not(ok)))
	// the iteration ends only when every present key has been produced
	fc.assume(g, implies(and(not(ok), not(eq(rng.t, nilPtr))),
		fmt.Sprintf("(forall ((vj %s)) (! (=> (select %s vj) (select %s vj)) :pattern ((select %s vj)) :pattern ((select %s vj))))", ks, hasArr, V, hasArr, V)))
	// a nil map has no entry (the has-component of the nil pointer is never written: a MapUpdate on nil is a safe:mapwrite failure), so
	// "every present key was produced" also holds, vacuously, for a nil map (added for C02: validateUTXO ranges over sigs[index])
	fc.assume(g, implies(eq(rng.t, nilPtr), fmt.Sprintf("(forall ((vj %s)) (! (not (select %s vj)) :pattern ((select %s vj))))", ks, hasArr, hasArr)))
	fc.setComp(st, vk, vs, ite(ok, app("store", V, k, "true"), V))
	fc.assumes["trusted model: a map range yields every present key exactly once (no insertion of new keys in the loop: safe:maprange obligations)"] = true
	fr.vals[x] = SV{typ: x.Type(), tuple: []SV{{t: ok, typ: boolT}, {t: k, typ: mt.Key()}, {t: val, typ: mt.Elem()}}}
	return true
}

// mapEntryClosure assumes the ground instance, for map m and key k, of the heap closure of the ENTRY state: if m existed at
// entry and held k then, the value it held then is a well-typed value of the entry heap (a pointer stored in a cell of the
// entry heap points to an object allocated before entry, never to a later allocation). True in every execution.
func (fr *Frame) mapEntryClosure(mt *types.Map, m, k, g string) {
	fc := fr.fc
	if !fc.usesFact("entryclosure") {
		return
	}
	w0 := compInit("W")
	mh, mv := fc.mapComps(mt)
	v0 := app("select", app("select", compInit(mv), m), k)
	wf := fc.tc.wf(v0, mt.Elem(), w0)
	if wf == "true" {
		return
	}
	fc.assume(g, implies(and(not(eq(m, nilPtr)), app("<", app("root", m), w0), app("select", app("select", compInit(mh), m), k)), wf))
}

// entryClosureAtLoad: the code loads a pointer-like value (pointer, slice, map, interface) through address a. Ground
// instance of the heap closure of the ENTRY state for that address: if a was allocated before entry then the value the
// ENTRY heap holds at a is a well-typed value of the entry heap (it points to an object allocated before entry). Lets an
// invariant `x[i] == old(x[i])` separate the loaded pointer from objects allocated by the function itself.
func (fr *Frame) entryClosureAtLoad(a string, t types.Type, g string) {
	if !fr.fc.usesFact("entryclosure") {
		return
	}
	switch types.Unalias(t).Underlying().(type) {
	case *types.Pointer, *types.Slice, *types.Map, *types.Interface:
	default:
		return
	}
	fc := fr.fc
	if isOpaqueStruct(t) || isBigInt(t) {
		return
	}
	w0 := compInit("W")
	v0 := fc.load(&State{heap: map[string]string{}}, a, t)
	fc.assume(g, implies(and(app("<", app("root", a), w0), app(">=", app("root", a), "0")), fc.tc.wf(v0, t, w0)))
}

// mapRangeInsertCheck: a MapUpdate inside a map range loop must not add a new key to the ranged map.
func (fr *Frame) mapRangeInsertCheck(x *ssa.MapUpdate, st *State, g string) {
	fc := fr.fc
	umt := x.Map.Type().Underlying().(*types.Map)
	for _, li := range fr.loops {
		if !li.body[x.Block()] {
			continue
		}
		_, r, mt := loopMapRange(li)
		if r == nil || !types.Identical(mt, umt) {
			continue
		}
		if ok, _ := fr.mapRangeSafe(li, mt); !ok {
			continue
		}
		rv, known := fr.vals[r]
		if !known {
			continue
		}
		mh, _ := fc.mapComps(mt)
		m, k := fr.val(x.Map), fr.val(x.Key)
		has := app("select", app("select", fc.comp(st, mh, fc.comps[mh]), rv.t), k.t)
		fr.safe("maprange", g, or(not(eq(m.t, rv.t)), has), x.Pos(), "no new key is inserted into a map while it is being ranged over")
	}
}

// visitedBuiltin: visited(k) inside an invariant of a map range loop.
func (e *SpecEnv) visitedBuiltin(x *ECall) SV {
	fr := e.fc.curFrame
	if fr == nil || fr.curVisLoop == nil {
		e.fail("visited(k) is only meaningful in an invariant of a map range loop")
	}
	vli := fr.curVisLoop
	if _, r0, _ := loopMapRange(vli); r0 == nil {
		// a loop nested in a map range loop: visited(k) is the visited set of the innermost enclosing map range. Its `next` runs
		// in the enclosing header, so inside the body (and in the nested loop) the key being processed is already in the set.
		var best *loopInfo
		for _, o := range fr.loops {
			if _, ro, _ := loopMapRange(o); o != vli && ro != nil && o.body[vli.header] && (best == nil || len(o.body) < len(best.body)) {
				best = o
			}
		}
		if best != nil {
			vli = best
		}
	}
	_, r, mt := loopMapRange(vli)
	if r == nil {
		e.fail("visited(k): loop %d does not range over a map", fr.curVisLoop.ordinal)
	}
	if ok, why := fr.mapRangeSafe(vli, mt); !ok {
		e.fail("visited(k): the visited-set model is switched off for this loop (%s)", why)
	}
	if len(x.Args) != 1 {
		e.fail("visited(k)")
	}
	k := e.eval(x.Args[0])
	vk, vs := fr.visComp(r, mt)
	return SV{t: app("select", e.fc.comp(e.cur, vk, vs), k.t), typ: boolT}
}

// ---------- 4. lockset r.<Mutex> guards f1, f2, ... ----------

// checkLocksetGuards: syntactic critical-section check for a method whose receiver carries a mutex guarding some of its
// fields (clause `lockset n.Mutex guards used, challenge, response, random`):
//
//	held       the method calls r.<Mutex>.Lock() exactly once, immediately followed by `defer r.<Mutex>.Unlock()`; there is
//	           no other (R)Unlock call; every access to a guarded field of the receiver is dominated by that Lock
//	confined   the receiver is used only to take field addresses; the address of a guarded field is used only to load or
//	           store it; no goroutine is started and no function literal is created (nothing outlives the critical section)
//	exclusive  no other function of the package touches a guarded field of that struct type, except on an object it has
//	           just allocated itself (constructor: the object is not shared yet)
//
// A dominator argument on the SSA, not a proof about schedules: together with the mutual exclusion of sync.Mutex
// (assumed) it shows that all reads and writes of the guarded fields happen inside one critical section per call, so the
// sequential two-state contract of the method describes every interleaving of calls.
func (eng *Engine) checkLocksetGuards(fc *FnCtx, fr *Frame, fn *ssa.Function, spec *FuncSpec) {
	parts := strings.SplitN(spec.Lockset, " guards ", 2)
	mu := strings.TrimSpace(parts[0])
	if i := strings.LastIndex(mu, "."); i >= 0 {
		mu = mu[i+1:]
	}
	recv := fn.Params[0]
	st, ok := derefStructType(recv.Type())
	pos := fn.Pos()
	if !ok {
		fc.oblige(fr, "lockset", "held", "true", "false", pos, "receiver is not a struct pointer", fr.props())
		return
	}
	muIdx := -1
	guarded := map[int]bool{}
	var gnames []string
	for _, f := range strings.Split(parts[1], ",") {
		f = strings.TrimSpace(f)
		if f == "" {
			continue
		}
		found := false
		for i := 0; i < st.NumFields(); i++ {
			if st.Field(i).Name() == f {
				guarded[i] = true
				found = true
			}
		}
		if !found {
			eng.staleErrs = append(eng.staleErrs, fmt.Sprintf("contract-stale: %s: lockset: no field %s in the receiver type (%s)", spec.Key, f, spec.Src))
		}
		gnames = append(gnames, f)
	}
	for i := 0; i < st.NumFields(); i++ {
		if st.Field(i).Name() == mu {
			muIdx = i
		}
	}
	if muIdx < 0 {
		// the guarding mutex is gone from the receiver type: the guarded fields are no longer protected by a lock of their own
		// object. That is a failed lockset obligation (reported as the violation it is), not a contract that merely went stale.
		fc.oblige(fr, "lockset", "held", "true", "false", fn.Pos(),
			fmt.Sprintf("the receiver type has a mutex field %s guarding %s (syntactic)", mu, strings.Join(gnames, ", ")), fr.props())
		return
	}
	isMu := func(v ssa.Value) bool {
		fa, ok := v.(*ssa.FieldAddr)
		return ok && fa.X == recv && fa.Field == muIdx
	}
	name := func(c *ssa.CallCommon) string {
		if f := c.StaticCallee(); f != nil {
			return funcKey(f)
		}
		return ""
	}
	isLock := func(n string) bool { return n == "(*sync.Mutex).Lock" || n == "(*sync.RWMutex).Lock" }
	isUnlock := func(n string) bool { return strings.HasSuffix(n, "Mutex).Unlock") || strings.HasSuffix(n, "Mutex).RUnlock") }
	var lock *ssa.Call
	locks, unlockCalls, deferredUnlocks, gos, closures := 0, 0, 0, 0, len(fn.AnonFuncs)
	deferOK := false
	for _, b := range fn.Blocks {
		for i, in := range b.Instrs {
			switch x := in.(type) {
			case *ssa.Call:
				n := name(&x.Call)
				if isLock(n) || strings.HasSuffix(n, "Mutex).RLock") || strings.HasSuffix(n, "Mutex).TryLock") {
					locks++
					if isLock(n) && len(x.Call.Args) == 1 && isMu(x.Call.Args[0]) {
						lock = x
						// the next instruction that is not a debug ref or the field address must be the deferred Unlock
						for _, nx := range b.Instrs[i+1:] {
							if _, ok := nx.(*ssa.DebugRef); ok {
								continue
							}
							if fa, ok := nx.(*ssa.FieldAddr); ok && isMu(fa) {
								continue
							}
							if d, ok := nx.(*ssa.Defer); ok {
								dn := name(&d.Call)
								deferOK = (dn == "(*sync.Mutex).Unlock" || dn == "(*sync.RWMutex).Unlock") && len(d.Call.Args) == 1 && isMu(d.Call.Args[0])
							}
							break
						}
					}
				}
				if isUnlock(n) {
					unlockCalls++
				}
			case *ssa.Defer:
				if isUnlock(name(&x.Call)) {
					deferredUnlocks++
				}
			case *ssa.Go:
				gos++
			case *ssa.MakeClosure:
				closures++
			}
		}
	}
	after := func(in ssa.Instruction) bool {
		// `in` executes after the Lock call on every path
		if lock == nil {
			return false
		}
		if in.Block() == lock.Block() {
			seen := false
			for _, y := range in.Block().Instrs {
				if y == ssa.Instruction(lock) {
					seen = true
				}
				if y == in {
					return seen
				}
			}
			return false
		}
		return lock.Block().Dominates(in.Block())
	}
	accessesOK, confined := true, gos == 0 && closures == 0
	var bad []string
	if refs := recv.Referrers(); refs != nil {
		for _, r := range *refs {
			switch x := r.(type) {
			case *ssa.DebugRef:
			case *ssa.FieldAddr:
				if x.X != recv {
					confined = false
					continue
				}
				if !guarded[x.Field] {
					continue
				}
				if !after(x) {
					accessesOK = false
					bad = append(bad, fmt.Sprintf("%s.%s at %s outside the critical section", recv.Name(), st.Field(x.Field).Name(), eng.pos(x.Pos())))
				}
				if ur := x.Referrers(); ur != nil {
					for _, u := range *ur {
						switch y := u.(type) {
						case *ssa.DebugRef:
						case *ssa.UnOp:
							if y.Op != token.MUL || !after(y) {
								accessesOK = false
							}
						case *ssa.Store:
							if y.Addr != ssa.Value(x) {
								confined = false
								bad = append(bad, fmt.Sprintf("address of %s.%s escapes at %s", recv.Name(), st.Field(x.Field).Name(), eng.pos(y.Pos())))
							} else if !after(y) {
								accessesOK = false
							}
						default:
							confined = false
							bad = append(bad, fmt.Sprintf("address of %s.%s escapes at %s", recv.Name(), st.Field(x.Field).Name(), eng.pos(u.Pos())))
						}
					}
				}
			default:
				confined = false
				bad = append(bad, fmt.Sprintf("receiver used as a value at %s", eng.pos(r.Pos())))
			}
		}
	}
	// exclusive: package-wide scan
	exclusive := true
	recvNamed, _ := derefNamed(recv.Type())
	var scan func(f *ssa.Function)
	scan = func(f *ssa.Function) {
		if f == fn {
			return
		}
		for _, b := range f.Blocks {
			for _, in := range b.Instrs {
				switch x := in.(type) {
				case *ssa.FieldAddr:
					n, ok := derefNamed(x.X.Type())
					if !ok || recvNamed == nil || n.Obj() != recvNamed.Obj() || !guarded[x.Field] {
						continue
					}
					if a, isAlloc := x.X.(*ssa.Alloc); isAlloc && a.Parent() == f {
						continue // object under construction
					}
					exclusive = false
					bad = append(bad, fmt.Sprintf("%s touches %s.%s at %s", funcKey(f), recvNamed.Obj().Name(), st.Field(x.Field).Name(), eng.pos(x.Pos())))
				case *ssa.Field:
					n, ok := derefNamed(x.X.Type())
					if ok && recvNamed != nil && n.Obj() == recvNamed.Obj() && guarded[x.Field] {
						exclusive = false
						bad = append(bad, fmt.Sprintf("%s reads %s.%s at %s", funcKey(f), recvNamed.Obj().Name(), st.Field(x.Field).Name(), eng.pos(x.Pos())))
					}
				}
			}
		}
		for _, a := range f.AnonFuncs {
			scan(a)
		}
	}
	if fn.Pkg != nil {
		for _, m := range fn.Pkg.Members {
			switch x := m.(type) {
			case *ssa.Function:
				scan(x)
			case *ssa.Type:
				for _, t := range []types.Type{x.Type(), types.NewPointer(x.Type())} {
					ms := eng.prog.MethodSets.MethodSet(t)
					for i := 0; i < ms.Len(); i++ {
						if mf := eng.prog.MethodValue(ms.At(i)); mf != nil && mf.Pkg == fn.Pkg && mf.Synthetic == "" {
							scan(mf)
						}
					}
				}
			}
		}
	}
	b2s := func(b bool) string {
		if b {
			return "true"
		}
		return "false"
	}
	note := ""
	if len(bad) > 0 {
		note = " -- " + strings.Join(bad, "; ")
	}
	gl := strings.Join(gnames, ", ")
	fc.oblige(fr, "lockset", "held", "true", b2s(lock != nil && locks == 1 && deferOK && deferredUnlocks == 1 && unlockCalls == 0 && accessesOK), pos,
		fmt.Sprintf("%s.%s.Lock() once, immediately followed by the deferred Unlock(), no other unlock; every access to %s.{%s} is dominated by the Lock (syntactic)%s", recv.Name(), mu, recv.Name(), gl, note), fr.props())
	fc.oblige(fr, "lockset", "confined", "true", b2s(confined), pos,
		fmt.Sprintf("the receiver and the addresses of its guarded fields do not escape; no goroutine, no function literal (syntactic)%s", note), fr.props())
	fc.oblige(fr, "lockset", "exclusive", "true", b2s(exclusive), pos,
		fmt.Sprintf("no other function of the package touches {%s} of this type except on an object it has just allocated (syntactic)%s", gl, note), fr.props())
	fc.assumes["sync.Mutex provides mutual exclusion and a happens-before edge from Unlock to the next Lock (lockset obligations are syntactic; schedules are not explored)"] = true
}

// ---------- 5. append to a slice of flat structs ----------

// appendStructElems models append(s, more...) for a slice whose element type is a struct of leaf fields (e.g.
// crypto.aggregateSigner{index int; public *Key; point *Point}). Element j of a slice lives at Elem(arr, off+j) and its
// field k in the cell Fld(Elem(arr, off+j), k) of the component of the field's type. The result window [0, newLen) holds the
// old elements followed by the appended ones; every other cell is unchanged (when the append is in place the old elements
// are the same cells, so the same formula covers both cases). Returns false when the element type is not a flat struct.
func (fr *Frame) appendStructElems(s, more SV, hasMore bool, res, newLen string, st *State, et types.Type) bool {
	fc := fr.fc
	if !isStructT(et) {
		return false
	}
	u := types.Unalias(et).Underlying().(*types.Struct)
	for i := 0; i < u.NumFields(); i++ {
		if !isLeaf(u.Field(i).Type()) {
			return false
		}
	}
	if hasMore && fc.tc.sortOf(more.typ) != "Slice" {
		return false
	}
	for i := 0; i < u.NumFields(); i++ {
		ft := u.Field(i).Type()
		ck, cs := fc.cKey(ft)
		prev := fc.comp(st, ck, cs)
		h := fc.fresh("H_"+mangle(ck), cs)
		fk := num(int64(fc.tc.fieldKey(et, i)))
		e := "(fpar p)"
		inWin := fmt.Sprintf("(and ((_ is Fld) p) (= (fk p) %s) ((_ is Elem) %s) (= (epar %s) %s) (<= %s (eix %s)) (< (eix %s) (+ %s %s)))",
			fk, e, e, sarr(res), soff(res), e, e, soff(res), newLen)
		rel := fmt.Sprintf("(- (eix %s) %s)", e, soff(res))
		oldv := fmt.Sprintf("(select %s (Fld (Elem %s (+ %s %s)) %s))", prev, sarr(s.t), soff(s.t), rel, fk)
		newv := oldv
		if hasMore {
			newv = fmt.Sprintf("(select %s (Fld (Elem %s (+ %s (- %s %s))) %s))", prev, sarr(more.t), soff(more.t), rel, slen(s.t), fk)
		}
		fc.emit(fmt.Sprintf("(assert (forall ((p Ptr)) (! (= (select %s p) (ite %s (ite (< %s %s) %s %s) (select %s p))) :pattern ((select %s p)))))",
			h, inWin, rel, slen(s.t), oldv, newv, prev, h))
		// the same facts indexed by the element number j (consequences of the axiom above, stated in the shape `x[j].f` has in
		// invariants so that they are found by matching instead of arithmetic): old elements are kept, the appended ones follow
		at := func(comp, arr, off, j string) string {
			return fmt.Sprintf("(select %s (Fld (Elem %s %s) %s))", comp, arr, idx(off, j), fk)
		}
		fc.emit(fmt.Sprintf("(assert (forall ((j Int)) (! (=> (and (<= 0 j) (< j %s)) (= %s %s)) :pattern (%s))))",
			slen(s.t), at(h, sarr(res), soff(res), "j"), at(prev, sarr(s.t), soff(s.t), "j"), at(h, sarr(res), soff(res), "j")))
		if hasMore {
			fc.emit(fmt.Sprintf("(assert (forall ((k Int)) (! (=> (and (<= 0 k) (< k %s)) (= %s %s)) :pattern (%s))))",
				slen(more.t), at(h, sarr(res), soff(res), "(+ "+slen(s.t)+" k)"), at(prev, sarr(more.t), soff(more.t), "k"), at(h, sarr(res), soff(res), "(+ "+slen(s.t)+" k)")))
			fc.emit(fmt.Sprintf("(assert (=> (= %s 1) (= %s %s)))", slen(more.t), at(h, sarr(res), soff(res), slen(s.t)), at(prev, sarr(more.t), soff(more.t), "0")))
		}
		fc.noteWrite(ck)
		st.heap[ck] = h
	}
	return true
}
