package main

// `hint at "source line text" E`: an intermediate assertion anchored at a statement line of the function body (same anchoring rule
// as ghost updates: the trimmed text of the line must occur exactly once). E is CHECKED before the first instruction of that line and
// assumed afterwards (proof guidance, never an assumption). E may use the locals visible there.

import (
	"fmt"
	"go/ast"
	"go/token"

	"golang.org/x/tools/go/ssa"
)

func (s *FuncSpec) hasLineHints() bool {
	for _, h := range s.Hints {
		if h.Where == "at" {
			return true
		}
	}
	return false
}

// lineHints applies the `hint at` clauses anchored at the source line of instruction `in` (once per block).
func (fr *Frame) lineHints(in ssa.Instruction, st *State, g string, done map[int]bool) {
	if _, isDbg := in.(*ssa.DebugRef); isDbg {
		return
	}
	fc := fr.fc
	line := fc.eng.sourceLine(in.Pos())
	if line == "" {
		return
	}
	for i, h := range fr.spec.Hints {
		if h.Where != "at" || done[i] || h.Callee != line {
			continue
		}
		done[i] = true
		if fr.lineHintHits == nil {
			fr.lineHintHits = map[int]int{}
		}
		fr.lineHintHits[i]++
		// names: everything visible at the head of this block (debug refs and named phis of dominating blocks, e.g. the
		// result of an earlier loop), overridden by the debug refs that precede `in` inside the block
		locals, _ := fr.localsAt(in.Block(), -1)
		for _, x := range in.Block().Instrs {
			if x == in {
				break
			}
			d, ok := x.(*ssa.DebugRef)
			if !ok || d.IsAddr {
				continue
			}
			id, ok := d.Expr.(*ast.Ident)
			if !ok {
				continue
			}
			if sv, known := fr.vals[d.X]; known {
				v := sv
				locals[id.Name] = func(*State) SV { return v }
			}
		}
		for name, f := range fr.localsBefore(in) {
			if _, have := locals[name]; !have {
				locals[name] = f
			}
		}
		fr.curLocals, fr.curLocalAddrs = locals, nil
		env := fr.specEnv(st, fr.entry)
		t, err := env.evalBool(h.Clause.E)
		fr.curLocals = nil
		if err != nil {
			fc.eng.stale(fr.spec, h.Clause, err)
			continue
		}
		label := h.Clause.Label
		if label == "" {
			label = fmt.Sprint(i)
		}
		fc.oblige(fr, "hint", label, g, t, token.NoPos, h.Clause.Text, fr.props())
	}
}

// checkLineHintAnchors reports `hint at` clauses whose anchor matched no or several program points.
func (fr *Frame) checkLineHintAnchors() {
	if fr.spec == nil {
		return
	}
	for i, h := range fr.spec.Hints {
		if h.Where == "at" && fr.lineHintHits[i] != 1 {
			fr.fc.eng.stale(fr.spec, h.Clause, fmt.Errorf("hint anchor %q matched %d program points (need exactly 1)", h.Callee, fr.lineHintHits[i]))
		}
	}
}
