package main

import (
	"fmt"
	"go/token"
	"go/types"
	"strings"
)

// Frame checking: a verified function with an explicit `modifies` clause must leave every memory cell that existed at entry and is
// not named by the clause unchanged. The condition FrameOK_K(H) is stated per heap component K, checked at every return and at
// every loop back edge, and assumed at loop heads (it is an implicit loop invariant).

type frameCell struct {
	key   string // heap component
	c     string // condition on (p) for C components, on (p, i) for B components
	isB   bool
	pc    string // B components: a condition on p alone implied by c (the block the cell lives in); see frameBlockCond in ext_crypto.go
}

type frameInfo struct {
	all   bool
	cells []frameCell
	maps  []string // map references whose contents may change
	w0    string
}

// cellsOf decomposes the location (addr, t) into leaf cells.
func (fc *FnCtx) cellsOf(addr string, t types.Type, out *[]frameCell) {
	t = types.Unalias(t)
	if isStructT(t) {
		u := t.Underlying().(*types.Struct)
		for i := 0; i < u.NumFields(); i++ {
			fc.cellsOf(mkFld(addr, fc.tc.fieldKey(t, i)), u.Field(i).Type(), out)
		}
		return
	}
	if a, ok := isArrayT(t); ok {
		if isLeaf(a.Elem()) {
			k, s := fc.bKey(a.Elem())
			fc.registerComp(k, s)
			*out = append(*out, frameCell{key: k, isB: true, c: eq("p", addr), pc: eq("p", addr)})
			return
		}
		if a.Len() <= 16 {
			for i := int64(0); i < a.Len(); i++ {
				fc.cellsOf(mkElem(addr, num(i)), a.Elem(), out)
			}
		}
		return
	}
	ck, cs := fc.cKey(t)
	bk, bs := fc.bKey(t)
	fc.registerComp(ck, cs)
	fc.registerComp(bk, bs)
	if par, idx, ok := isElemTerm(addr); ok {
		*out = append(*out, frameCell{key: bk, isB: true, c: and(eq("p", par), eq("i", idx)), pc: eq("p", par)})
		return
	}
	if isConsTerm(addr) {
		*out = append(*out, frameCell{key: ck, c: eq("p", addr)})
		return
	}
	isE := "((_ is Elem) " + addr + ")"
	*out = append(*out, frameCell{key: ck, c: and(not(isE), eq("p", addr))})
	*out = append(*out, frameCell{key: bk, isB: true, c: and(isE, eq("p", app("epar", addr)), eq("i", app("eix", addr))), pc: and(isE, eq("p", app("epar", addr)))})
}

// computeFrame evaluates the modifies clause of the top-level function in its entry state.
func (fr *Frame) computeFrame(st0 *State) {
	spec := fr.spec
	if !fr.top || spec == nil || !spec.HasMod || spec.Assume {
		return
	}
	fc := fr.fc
	if spec.NoFrame {
		fc.assumes["frame not checked: the modifies clause of "+spec.Key+" is assumed ("+spec.Src+")"] = true
		return
	}
	fi := &frameInfo{w0: fc.watermark(st0)}
	env := fr.specEnv(st0, st0)
	for _, m := range spec.Modifies {
		switch {
		case m.All:
			fi.all = true
		case m.Ghost != "":
		case m.Contents:
			v := env.evalSafe(m.E)
			if v == nil {
				fc.eng.stale(spec, Clause{Text: m.Text, Src: spec.Src}, fmt.Errorf("cannot evaluate modifies target"))
				continue
			}
			switch u := types.Unalias(v.typ).Underlying().(type) {
			case *types.Slice:
				et := u.Elem()
				wlen := slen(v.t)
				if m.Cap {
					wlen = scap(v.t)
				}
				inWin := func(ix string) string {
					if m.Tail {
						return and(app("<=", app("+", soff(v.t), slen(v.t)), ix), app("<", ix, app("+", soff(v.t), scap(v.t))))
					}
					if m.Whole {
						return "true" // x[*]: every cell of the backing array
					}
					return and(app("<=", soff(v.t), ix), app("<", ix, app("+", soff(v.t), wlen)))
				}
				if isLeaf(et) {
					k, s := fc.bKey(et)
					fc.registerComp(k, s)
					fi.cells = append(fi.cells, frameCell{key: k, isB: true, c: and(eq("p", sarr(v.t)), inWin("i")), pc: eq("p", sarr(v.t))})
				} else if a, isArr := isArrayT(et); isArr && isLeaf(a.Elem()) {
					// elements are leaf arrays ([]crypto.Hash): the block of element j is Elem(arr, j). Quantifier-free form of
					// `exists wj :: inWin(wj) && p == Elem(arr, wj)` (Elem is a constructor); the existential form below puts a fresh
					// skolem into every instance of the frame condition and starves the solvers (added for C07).
					k, s := fc.bKey(a.Elem())
					fc.registerComp(k, s)
					c := and("((_ is Elem) p)", eq("(epar p)", sarr(v.t)), inWin("(eix p)"))
					fi.cells = append(fi.cells, frameCell{key: k, isB: true, c: c, pc: c})
				} else {
					// elements are aggregates living at Elem(arr, j): every cell below such an element
					var sub []frameCell
					fc.cellsOf("(Elem "+sarr(v.t)+" wj)", et, &sub)
					for _, c := range sub {
						c.c = fmt.Sprintf("(exists ((wj Int)) (and %s %s))", inWin("wj"), c.c)
						if c.pc != "" {
							c.pc = fmt.Sprintf("(exists ((wj Int)) (and %s %s))", inWin("wj"), c.pc)
						}
						fi.cells = append(fi.cells, c)
					}
				}
			case *types.Map:
				fi.maps = append(fi.maps, v.t)
			default:
				fc.eng.stale(spec, Clause{Text: m.Text, Src: spec.Src}, fmt.Errorf("modifies x[..] needs a slice or map"))
			}
		default:
			a, t, ok := env.evalAddrSafe(m.E)
			if !ok {
				fc.eng.stale(spec, Clause{Text: m.Text, Src: spec.Src}, fmt.Errorf("modifies target is not an lvalue"))
				continue
			}
			fc.cellsOf(a, t, &fi.cells)
		}
	}
	fr.frame = fi
}

// frameCond returns FrameOK_K(h) for component key, or "" if the component is not subject to the frame.
func (fr *Frame) frameCond(key, h string) string {
	fi := fr.frame
	if fi == nil || fi.all || key == "W" || strings.HasPrefix(key, "G|") {
		return ""
	}
	h0 := compInit(key)
	if h == h0 {
		return ""
	}
	old := and(app("<", app("root", "p"), fi.w0), app(">=", app("root", "p"), "0"))
	switch {
	case strings.HasPrefix(key, "C|"):
		var ex []string
		for _, c := range fi.cells {
			if c.key == key && !c.isB {
				ex = append(ex, c.c)
			}
		}
		return fmt.Sprintf("(forall ((p Ptr)) (! (=> (and %s (not %s)) (= (select %s p) (select %s p))) :pattern ((select %s p))))", old, or(ex...), h, h0, h)
	case strings.HasPrefix(key, "B|"):
		var ex []string
		for _, c := range fi.cells {
			if c.key == key && c.isB {
				ex = append(ex, c.c)
			}
		}
		return fmt.Sprintf("(forall ((p Ptr) (i Int)) (! (=> (and %s (not %s)) (= (select (select %s p) i) (select (select %s p) i))) :pattern ((select (select %s p) i))))", old, or(ex...), h, h0, h)
	case strings.HasPrefix(key, "MH|"), strings.HasPrefix(key, "MV|"), key == "ML":
		var ex []string
		for _, m := range fi.maps {
			ex = append(ex, eq("p", m))
		}
		return fmt.Sprintf("(forall ((p Ptr)) (! (=> (and %s (not %s)) (= (select %s p) (select %s p))) :pattern ((select %s p))))", old, or(ex...), h, h0, h)
	}
	return ""
}

func (fr *Frame) checkFrame(st *State, g, where string, pos token.Pos, only map[string]bool) {
	if fr.frame == nil || fr.frame.all {
		return
	}
	fc := fr.fc
	for _, k := range fc.compList {
		if only != nil && !only[k] {
			continue
		}
		h, ok := st.heap[k]
		if !ok {
			continue
		}
		c := fr.frameCond(k, h)
		if c == "" {
			continue
		}
		fc.oblige(fr, "frame", where+":"+mangle(k), g, c, pos, "only the locations of the modifies clause (and fresh ones) change: "+k, fr.props())
	}
}

func (fr *Frame) assumeFrame(st *State, g string, only map[string]bool) {
	if fr.frame == nil || fr.frame.all {
		return
	}
	fc := fr.fc
	for _, k := range fc.compList {
		if only != nil && !only[k] {
			continue
		}
		h, ok := st.heap[k]
		if !ok {
			continue
		}
		if c := fr.frameCond(k, h); c != "" {
			fc.assume(g, c)
			if bc := fr.frameBlockCond(k, h); bc != "" {
				fc.assume(g, bc) // a consequence of c by array extensionality, stated so that the solver need not find it
			}
		}
	}
}
