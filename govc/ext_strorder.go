package main

// ext_strorder.go — ordering of Go strings (added for C11: the membership views are sorted by (Timestamp, IdForNetwork.String())).
//
// `a < b`, `<=`, `>`, `>=` on strings, in code and in specs, are expressed through ONE uninterpreted relation strlt(a, b) on the
// string sort, axiomatised as a strict total order (byte-lexicographic comparison is one): asymmetric, total, transitive. Nothing
// else is known about it (no relation to the content or the length of the strings). Listed as a trusted model in the evidence.
// Before, a string comparison made the value unknown ("unsupported: string ordering").

func (fc *FnCtx) strOrder(op, a, b string) string {
	fc.eng.declareUF(fc, "strlt", []string{"Str", "Str"}, "Bool")
	if fc.ufAxioms == nil {
		fc.ufAxioms = map[string]string{}
	}
	if fc.ufAxioms["strlt"] == "" {
		fc.ufAxioms["strlt"] = "(assert (forall ((a Str) (b Str)) (! (and (=> (strlt a b) (not (strlt b a))) (or (= a b) (strlt a b) (strlt b a))) :pattern ((strlt a b)))))\n" +
			"(assert (forall ((a Str) (b Str) (c Str)) (! (=> (and (strlt a b) (strlt b c)) (strlt a c)) :pattern ((strlt a b) (strlt b c)))))"
		fc.assumes["trusted model: string comparison is a strict total order (uninterpreted strlt: asymmetric, total, transitive)"] = true
	}
	switch op {
	case "<":
		return app("strlt", a, b)
	case ">":
		return app("strlt", b, a)
	case "<=":
		return not(app("strlt", b, a))
	default: // ">="
		return not(app("strlt", a, b))
	}
}
