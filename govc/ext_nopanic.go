package main

import (
	"go/token"
)

// `nopanic when E` — conditional no-panic contracts (added for C15/C16).
//
// A function on the finalization path has two readings: C15/C17 need its postconditions on EVERY returning execution (a
// panic aborts the enclosing badger transaction before Commit: nothing is applied), while C16 needs "under FinalizePre the
// function does not panic". `panics when` and `requires` cannot express both (each puts an unconditional obligation on every
// caller). A function with
//     nopanic when E            E over the parameters and the ENTRY state
// is verified as follows (fr.noPanicOld = E evaluated at entry):
//   * an explicit panic() at guard g yields the obligation  g && E ==> false          (#nopanic:panic)
//     (without E the panic is a documented rejection, as with `maypanic`; `nopanic when` implies `maypanic`);
//   * a call of a callee with `panics when C` yields         g && E ==> !C            (#nopanic:<callee>:<i>)
//     and the path continues under !C (if C held the callee would not return): the callee's panic is PROPAGATED, it is
//     no longer an unconditional precondition of this caller;
//   * a call of a callee that itself has `nopanic when Q` yields   g && E ==> Q(at the call)   (#nopanic:<callee>:cond);
//   * a call of a callee that is `maypanic` without a condition yields  g && E ==> false, unless the caller lists it
//     under `trustpre` (then it is recorded as an assumption).
// Callers WITHOUT a `nopanic when` clause are unaffected: a callee's `nopanic when` puts no obligation on them (exactly like
// `maypanic`), a callee's `panics when` stays an unconditional precondition. Implicit panics (nil, index, slice, division,
// type assertion, map write) stay unconditional obligations everywhere. Soundness: the clause only ADDS obligations compared
// with `maypanic`, and weakens the callee-panic precondition to "E ==> !C" only together with assuming !C on the continuing
// path, which is the partial-correctness reading (postconditions are claimed for returning executions only).

func (fr *Frame) evalNoPanicWhen(spec *FuncSpec, env *SpecEnv) {
	if spec == nil || len(spec.NoPanicWhen) == 0 {
		return
	}
	fc := fr.fc
	var ts []string
	for _, cl := range spec.NoPanicWhen {
		t, e := env.evalBool(cl.E)
		if e != nil {
			fc.eng.stale(spec, cl, e)
			continue
		}
		ts = append(ts, t)
	}
	if len(ts) == 0 {
		return
	}
	fr.noPanicOld = fc.define("npw", "Bool", and(ts...))
}

func (fr *Frame) rootNoPanic() string {
	root := fr
	for root.callerFrame != nil {
		root = root.callerFrame
	}
	return root.noPanicOld
}

// calleeNoPanic: obligations at a call site for callees that are maypanic / nopanic-when (see above). env is the callee's
// spec environment at the call (parameters bound, current state = state before the call).
func (fr *Frame) calleeNoPanic(spec *FuncSpec, key string, env *SpecEnv, g string, pos token.Pos) {
	np := fr.rootNoPanic()
	if np == "" || spec == nil {
		return
	}
	fc := fr.fc
	if len(spec.NoPanicWhen) > 0 {
		var ts []string
		for _, cl := range spec.NoPanicWhen {
			t, err := env.evalBool(cl.E)
			if err != nil {
				fc.eng.stale(spec, cl, err)
				continue
			}
			ts = append(ts, t)
		}
		if fr.trustsPre(key) {
			fc.assumes["no-panic condition of "+key+" assumed at its call sites in "+funcKey(fr.fn)+" (trustpre)"] = true
			return
		}
		fc.oblige(fr, "nopanic", key+":cond", g, implies(np, and(ts...)), pos, "under the `nopanic when` condition the callee's own no-panic condition holds", fr.props())
		return
	}
	if spec.MayPanic {
		if fr.trustsPre(key) {
			fc.assumes["documented panics of "+key+" (maypanic) assumed not to fire at its call sites in "+funcKey(fr.fn)+" (trustpre)"] = true
			return
		}
		fc.oblige(fr, "nopanic", key+":maypanic", g, not(np), pos, "callee may panic (maypanic without a no-panic condition)", fr.props())
	}
}
