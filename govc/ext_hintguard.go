package main

// `hint return [label] E` at a return where E cannot be evaluated (it names a local that is not defined on the paths
// reaching that return). Before: silently skipped there (stale only if it could be evaluated at NO return), so a new early
// `return ver, nil` inserted before the definition of the local escaped the hint altogether (C06: the canonical re-encoding
// comparison `bytes.Equal(canonical, val)`).
//
// Now: if E has the form `A ==> B` and the antecedent A can be evaluated at that return (it names parameters and results
// only), the return gets the obligation `#hint:<label>:guard` = !A: the hint can hold there only vacuously. Error returns
// (`err == nil ==> …` at `return nil, err`) discharge it trivially; an accepting return that bypasses the code the hint talks
// about fails it. Any other shape is reported as a warning in the evidence instead of being skipped silently.

import (
	"fmt"
	"go/token"

	"golang.org/x/tools/go/ssa"
)

func (fr *Frame) hintUnavailable(i int, h Hint, b *ssa.BasicBlock, st *State, g string, res []SV, cause error) {
	fc := fr.fc
	label := h.Clause.Label
	if label == "" {
		label = fmt.Sprint(i)
	}
	if imp, ok := h.Clause.E.(*EBinary); ok && imp.Op == "==>" && mentionsResult(imp.X, fr.namedResults()) {
		env := fr.specEnv(st, fr.entry)
		if res != nil {
			fr.bindResults(env, res)
		}
		if t, err := env.evalBool(imp.X); err == nil {
			fc.oblige(fr, "hint", label+":guard", g, not(t), token.NoPos,
				"antecedent of `"+h.Clause.Text+"` must be false at a return where the hint cannot be evaluated ("+cause.Error()+")", fr.props())
			return
		}
	}
	fc.warn("hint return [%s] cannot be evaluated at the return in block %d (%v): skipped there", label, b.Index, cause)
}
