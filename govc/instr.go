package main

import (
	"fmt"
	"go/ast"
	"go/token"
	"go/types"
	"math/big"
	"strings"

	"golang.org/x/tools/go/ssa"
)

func (fc *FnCtx) mapComps(m *types.Map) (has, val string) {
	ks, vs := fc.tc.sortOf(m.Key()), fc.tc.sortOf(m.Elem())
	id := mangle(canonTypeString(m.Key())) + "|" + mangle(canonTypeString(m.Elem())) // byte == uint8, rune == int32 (ext_crypto.go)
	has, val = "MH|"+id, "MV|"+id
	fc.registerComp(has, "(Array Ptr (Array "+ks+" Bool))")
	fc.registerComp(val, "(Array Ptr (Array "+ks+" "+vs+"))")
	fc.registerComp("ML", "(Array Ptr Int)")
	return
}

func (fr *Frame) props() []string {
	if fr.fc.eng.rootProps != nil {
		return fr.fc.eng.rootProps
	}
	return nil
}

func (fr *Frame) safe(kind string, g, cond string, pos token.Pos, text string) {
	if kind == "nil" {
		// addresses built by Fld/Elem/alloc are non-nil by construction
		if strings.HasPrefix(cond, "(not (= (Fld ") || strings.HasPrefix(cond, "(not (= (Elem ") || strings.HasPrefix(cond, "(not (= (Base H0_W)") || strings.HasPrefix(cond, "(not (= (Base W!") {
			return
		}
	}
	fr.fc.oblige(fr, "safe:"+kind, "", g, cond, pos, text, fr.props())
	// Boogie-style: continue under the assumption that the check passed
	fr.fc.assume(g, cond)
}

func (fr *Frame) setVal(v ssa.Value, sort string, expr string) {
	t := fr.fc.define(fr.name(v), sort, expr)
	fr.vals[v] = SV{t: t, typ: v.Type()}
}

func (fr *Frame) freshVal(v ssa.Value, st *State, g string) string {
	fc := fr.fc
	t := fc.fresh(fr.name(v), fc.tc.sortOf(v.Type()))
	fr.vals[v] = SV{t: t, typ: v.Type()}
	fc.assume(g, fc.tc.wf(t, v.Type(), fc.watermark(st)))
	return t
}

func (fr *Frame) exec(in ssa.Instruction, st *State, g string) {
	fc := fr.fc
	tc := fc.tc
	switch x := in.(type) {
	case *ssa.DebugRef:
	case *ssa.Alloc:
		p := fc.alloc(st)
		et := x.Type().Underlying().(*types.Pointer).Elem()
		fr.vals[x] = SV{t: p, typ: x.Type()}
		fr.storeZero(st, p, et)
	case *ssa.BinOp:
		fr.binop(x, st, g)
	case *ssa.UnOp:
		fr.unop(x, st, g)
	case *ssa.Call:
		res := fr.call(x, x.Common(), st, g)
		if fr.top && fr.spec != nil && len(fr.spec.Hints) > 0 {
			ck := ""
			if x.Common().IsInvoke() {
				ck = "." + x.Common().Method.Name()
			} else if sc := x.Common().StaticCallee(); sc != nil {
				ck = funcKey(sc)
			} else if bi, isB := x.Common().Value.(*ssa.Builtin); isB {
				ck = bi.Name() // `hint after append E` / `hint after copy E`: builtins by name; callresult is the builtin's result
			}
			fr.lastCallRes = res // `hint after` clauses may name the callee's results: callresult, callresult0, callresult1 ...
			fr.applyHints("after", ck, x.Block(), st, g, nil)
			fr.lastCallRes = nil
		}
		if x.Type() != nil {
			if tup, ok := x.Type().(*types.Tuple); ok {
				if tup.Len() > 0 {
					fr.vals[x] = SV{typ: x.Type(), tuple: res}
				}
			} else if len(res) == 1 {
				res[0].typ = x.Type()
				fr.vals[x] = res[0]
			}
		}
	case *ssa.ChangeInterface:
		fr.vals[x] = SV{t: fr.val(x.X).t, typ: x.Type()}
	case *ssa.ChangeType:
		fr.vals[x] = SV{t: fr.val(x.X).t, typ: x.Type()}
	case *ssa.Convert:
		fr.convert(x, st, g)
	case *ssa.MultiConvert:
		fc.unsupported("MultiConvert")
		fr.freshVal(x, st, g)
	case *ssa.SliceToArrayPointer:
		s := fr.val(x.X)
		n := x.Type().Underlying().(*types.Pointer).Elem().Underlying().(*types.Array).Len()
		fr.safe("slice", g, app(">=", slen(s.t), num(n)), x.Pos(), "slice to array pointer")
		// only sound when the slice starts at offset 0 of its block
		fc.unsupported("SliceToArrayPointer")
		fr.freshVal(x, st, g)
	case *ssa.Defer:
		fr.defers = append(fr.defers, x)
	case *ssa.Extract:
		tv := fr.val(x.Tuple)
		if x.Index < len(tv.tuple) {
			v := tv.tuple[x.Index]
			v.typ = x.Type()
			fr.vals[x] = v
		} else {
			fr.freshVal(x, st, g)
		}
	case *ssa.Field:
		v := fr.val(x.X)
		s := tc.sortOf(x.X.Type())
		fr.setVal(x, tc.sortOf(x.Type()), app(fmt.Sprintf("%s_f%d", s, x.Field), v.t))
	case *ssa.FieldAddr:
		p := fr.val(x.X)
		fr.safe("nil", g, not(eq(p.t, nilPtr)), x.Pos(), "field address of nil pointer")
		et := x.X.Type().Underlying().(*types.Pointer).Elem()
		fr.vals[x] = SV{t: fc.fld(p.t, et, x.Field), typ: x.Type()}
	case *ssa.Go:
		fc.unsupported("go statement")
	case *ssa.If, *ssa.Jump:
	case *ssa.Index:
		v := fr.val(x.X)
		i := fr.val(x.Index)
		switch u := x.X.Type().Underlying().(type) {
		case *types.Array:
			fr.safe("index", g, and(app("<=", "0", i.t), app("<", i.t, num(u.Len()))), x.Pos(), "array index")
			fr.setVal(x, tc.sortOf(x.Type()), app("select", v.t, i.t))
			fc.assume(g, tc.wf(fr.vals[x].t, x.Type(), ""))
		case *types.Basic:
			fr.safe("index", g, and(app("<=", "0", i.t), app("<", i.t, app("strlen", v.t))), x.Pos(), "string index")
			fr.setVal(x, "Int", app("strat", v.t, i.t))
			fc.assume(g, tc.wf(fr.vals[x].t, x.Type(), ""))
		default:
			fc.unsupported("Index on " + x.X.Type().String())
			fr.freshVal(x, st, g)
		}
	case *ssa.IndexAddr:
		v := fr.val(x.X)
		i := fr.val(x.Index)
		switch u := x.X.Type().Underlying().(type) {
		case *types.Slice:
			fr.safe("index", g, and(app("<=", "0", i.t), app("<", i.t, slen(v.t))), x.Pos(), "slice index")
			fr.vals[x] = SV{t: fc.elem(sarr(v.t), idx(soff(v.t), i.t)), typ: x.Type()}
			// trigger hint: indexing a re-slice s[lo:hi][i] touches element lo+i of s. The equation follows from the
			// definition of idx and of the re-slice's offset (soff = soff(s)+lo); it only introduces the ground term
			// idx(soff(s), lo+i) so that quantified facts about the elements of s can be instantiated.
			if sl, ok := x.X.(*ssa.Slice); ok && sl.Low != nil {
				if _, isSl := sl.X.Type().Underlying().(*types.Slice); isSl {
					if base, ok := fr.vals[sl.X]; ok {
						_, isC := sl.Low.(*ssa.Const)
						if _, ok := fr.vals[sl.Low]; ok || isC {
							lo := fr.val(sl.Low)
							fc.emit(fmt.Sprintf("(assert (= (idx %s (+ %s %s)) (+ %s %s %s)))", soff(base.t), lo.t, i.t, soff(base.t), lo.t, i.t))
						}
					}
				}
			}
		case *types.Pointer:
			arr := u.Elem().Underlying().(*types.Array)
			fr.safe("nil", g, not(eq(v.t, nilPtr)), x.Pos(), "index of nil array pointer")
			fr.safe("index", g, and(app("<=", "0", i.t), app("<", i.t, num(arr.Len()))), x.Pos(), "array index")
			fr.vals[x] = SV{t: fc.elem(v.t, i.t), typ: x.Type()}
		}
	case *ssa.Lookup:
		fr.lookup(x, st, g)
	case *ssa.MakeChan:
		fc.unsupported("channel")
		fr.freshVal(x, st, g)
	case *ssa.MakeClosure:
		p := fc.alloc(st)
		t := fc.define(fr.name(x), "Ptr", p)
		fr.vals[x] = SV{t: t, typ: x.Type()}
		var bs []SV
		for _, b := range x.Bindings {
			bs = append(bs, fr.val(b))
		}
		fc.eng.closures[t] = &closureRec{fn: x.Fn.(*ssa.Function), bindings: bs}
	case *ssa.MakeInterface:
		v := fr.val(x.X)
		tag := num(int64(tc.tagOf(x.X.Type())))
		var payload string
		if tc.sortOf(x.X.Type()) == "Ptr" {
			payload = v.t
		} else {
			box, unbox := tc.boxFn(x.X.Type())
			payload = app(box, v.t)
			fc.assume("true", eq(app(unbox, payload), v.t))
		}
		fr.setVal(x, "Iface", app("mk-iface", tag, payload))
	case *ssa.MakeMap:
		p := fc.alloc(st)
		t := fc.define(fr.name(x), "Ptr", p)
		fr.vals[x] = SV{t: t, typ: x.Type()}
		mt := x.Type().Underlying().(*types.Map)
		mh, _ := fc.mapComps(mt)
		hs := fc.comps[mh]
		inner := hs[len("(Array Ptr ") : len(hs)-1]
		fc.setComp(st, mh, hs, app("store", fc.comp(st, mh, hs), t, "((as const "+inner+") false)"))
		fc.setComp(st, "ML", "(Array Ptr Int)", app("store", fc.comp(st, "ML", "(Array Ptr Int)"), t, "0"))
	case *ssa.MakeSlice:
		ln, cp := fr.val(x.Len), fr.val(x.Cap)
		fr.safe("slice", g, and(app("<=", "0", ln.t), app("<=", ln.t, cp.t)), x.Pos(), "makeslice: len out of range")
		p := fc.alloc(st)
		et := x.Type().Underlying().(*types.Slice).Elem()
		// ghost counter of elements allocated by make (spec builtin allocated())
		fc.setComp(st, "G|alloc", "Int", app("+", fc.comp(st, "G|alloc", "Int"), cp.t))
		pt := fc.define(fr.name(x)+"_arr", "Ptr", p)
		if isLeaf(et) {
			k, s := fc.bKey(et)
			fc.setComp(st, k, s, app("store", fc.comp(st, k, s), pt, "((as const (Array Int "+tc.sortOf(et)+")) "+tc.zero(et)+")"))
		} else if a, ok := isArrayT(et); ok && isLeaf(a.Elem()) {
			// slice of arrays (e.g. []Hash): every element block zeroed -- quantified fact
			k, s := fc.bKey(a.Elem())
			h := fc.fresh("H_"+mangle(k), s)
			old := fc.comp(st, k, s)
			fc.emit(fmt.Sprintf("(assert (forall ((p Ptr)) (! (= (select %s p) (ite (and ((_ is Elem) p) (= (epar p) %s)) ((as const (Array Int %s)) %s) (select %s p))) :pattern ((select %s p)))))", h, pt, tc.sortOf(a.Elem()), tc.zero(a.Elem()), old, h))
			st.heap[k] = h
			fc.noteWrite(k)
		}
		fr.setVal(x, "Slice", mkSlice(pt, "0", ln.t, cp.t))
	case *ssa.MapUpdate:
		m := fr.val(x.Map)
		fr.safe("mapwrite", g, not(eq(m.t, nilPtr)), x.Pos(), "assignment to entry in nil map")
		mt := x.Map.Type().Underlying().(*types.Map)
		fr.mapRangeInsertCheck(x, st, g) // ext_crypto.go: no new key is inserted into a map while it is being ranged over
		mh, mv := fc.mapComps(mt)
		k, v := fr.val(x.Key), fr.val(x.Value)
		hh := fc.comp(st, mh, fc.comps[mh])
		vv := fc.comp(st, mv, fc.comps[mv])
		ml := fc.comp(st, "ML", "(Array Ptr Int)")
		had := app("select", app("select", hh, m.t), k.t)
		fc.setComp(st, "ML", "(Array Ptr Int)", app("store", ml, m.t, ite(had, app("select", ml, m.t), app("+", app("select", ml, m.t), "1"))))
		fc.setComp(st, mh, fc.comps[mh], app("store", hh, m.t, app("store", app("select", hh, m.t), k.t, "true")))
		fc.setComp(st, mv, fc.comps[mv], app("store", vv, m.t, app("store", app("select", vv, m.t), k.t, v.t)))
	case *ssa.Next:
		fr.next(x, st, g)
	case *ssa.Panic:
		fr.panicInstr(x, st, g)
	case *ssa.Range:
		fr.vals[x] = SV{t: fr.val(x.X).t, typ: x.X.Type()}
		fr.mapRangeInit(x, st) // ext_crypto.go: ghost visited set of a map range starts empty
	case *ssa.Return:
		fr.ret(x, st, g)
	case *ssa.RunDefers:
		fr.runDefers(st, g)
	case *ssa.Select, *ssa.Send:
		fc.unsupported("channel operation")
		if v, ok := in.(ssa.Value); ok {
			fr.freshVal(v, st, g)
		}
	case *ssa.Slice:
		fr.slice(x, st, g)
	case *ssa.Store:
		a := fr.val(x.Addr)
		v := fr.val(x.Val)
		et := x.Addr.Type().Underlying().(*types.Pointer).Elem()
		fr.safe("nil", g, not(eq(a.t, nilPtr)), x.Pos(), "store through nil pointer")
		fc.store(st, a.t, et, v.t)
	case *ssa.TypeAssert:
		fr.typeAssert(x, st, g)
	default:
		fc.unsupported(fmt.Sprintf("instruction %T", in))
		if v, ok := in.(ssa.Value); ok {
			fr.freshVal(v, st, g)
		}
	}
}

func (fr *Frame) storeZero(st *State, addr string, t types.Type) {
	fc := fr.fc
	t = types.Unalias(t)
	if isStructT(t) {
		u := t.Underlying().(*types.Struct)
		for i := 0; i < u.NumFields(); i++ {
			// fc.fld / fc.elem (not mkFld / mkElem): every constructed address needs its ground root axiom, otherwise a
			// zero-initialised field of a fresh struct may alias a caller-owned block in a counter-model
			fr.storeZero(st, fc.fld(addr, t, i), u.Field(i).Type())
		}
		return
	}
	if a, ok := isArrayT(t); ok && !isLeaf(a.Elem()) {
		if a.Len() <= 16 {
			for i := int64(0); i < a.Len(); i++ {
				fr.storeZero(st, fc.elem(addr, num(i)), a.Elem())
			}
		}
		return
	}
	fc.store(st, addr, t, fc.tc.zero(t))
}

func rangeOf(t types.Type) (lo, hi *big.Int, ok bool) {
	b, isB := types.Unalias(t).Underlying().(*types.Basic)
	if !isB {
		return nil, nil, false
	}
	return intRange(b)
}

func constShift(v ssa.Value) (int, bool) {
	c, ok := v.(*ssa.Const)
	if !ok || c.Value == nil {
		return 0, false
	}
	n, ok := c.Uint64(), true
	if n > 256 {
		return 0, false
	}
	return int(n), ok
}

func (fr *Frame) binop(x *ssa.BinOp, st *State, g string) {
	fc := fr.fc
	tc := fc.tc
	a, b := fr.val(x.X), fr.val(x.Y)
	t := x.X.Type()
	switch x.Op {
	case token.EQL, token.NEQ:
		var r string
		sa := tc.sortOf(x.X.Type())
		switch {
		case sa == "Slice":
			// only comparison with nil is legal
			other := a
			if c, ok := x.X.(*ssa.Const); ok && c.Value == nil {
				other = b
			}
			r = eq(sarr(other.t), nilPtr)
		case sa == "Iface":
			if c, ok := x.Y.(*ssa.Const); ok && c.Value == nil {
				r = eq(app("itag", a.t), "0")
			} else if c, ok := x.X.(*ssa.Const); ok && c.Value == nil {
				r = eq(app("itag", b.t), "0")
			} else {
				r = eq(a.t, b.t)
			}
		default:
			if tc.sortOf(x.Y.Type()) != sa {
				// interface vs concrete comparisons
				fc.unsupported("mixed comparison")
				fr.freshVal(x, st, g)
				return
			}
			r = tc.deepEq(a.t, b.t, x.X.Type())
		}
		if x.Op == token.NEQ {
			r = not(r)
		}
		fr.setVal(x, "Bool", r)
		return
	case token.LSS, token.LEQ, token.GTR, token.GEQ:
		op := map[token.Token]string{token.LSS: "<", token.LEQ: "<=", token.GTR: ">", token.GEQ: ">="}[x.Op]
		if tc.sortOf(t) == "Str" {
			fr.setVal(x, "Bool", fc.strOrder(op, a.t, b.t)) // ext_strorder.go: strict total order strlt
			return
		}
		fr.setVal(x, "Bool", app(op, a.t, b.t))
		return
	}
	if tc.sortOf(t) == "Bool" {
		switch x.Op {
		case token.AND, token.LAND:
			fr.setVal(x, "Bool", and(a.t, b.t))
		case token.OR, token.LOR:
			fr.setVal(x, "Bool", or(a.t, b.t))
		default:
			fr.freshVal(x, st, g)
		}
		return
	}
	if tc.sortOf(t) == "Str" {
		if x.Op == token.ADD {
			fr.setVal(x, "Str", app("strcat", a.t, b.t))
			fc.assume("true", eq(app("strlen", fr.vals[x].t), app("+", app("strlen", a.t), app("strlen", b.t))))
			return
		}
	}
	lo, hi, ok := rangeOf(x.Type())
	if !ok && isFloat64T(x.Type()) && (x.Op == token.ADD || x.Op == token.SUB) {
		// float64 + and -: the correctly rounded exact result (finite operands, no overflow; see f64round)
		op := "+"
		if x.Op == token.SUB {
			op = "-"
		}
		exact := fc.define(fr.name(x)+"_exact", "Real", app(op, a.t, b.t))
		fr.vals[x] = SV{t: fr.f64round(fr.name(x), exact, app("is_int", exact)), typ: x.Type()}
		return
	}
	if !ok && fr.floatMulConst(x, a, b) { // ext_float.go: float64 * positive constant
		return
	}
	if !ok {
		// floats etc.
		fc.unsupported("arithmetic on " + x.Type().String())
		fr.freshVal(x, st, g)
		return
	}
	los, his := bignum(lo), bignum(hi)
	var r string
	switch x.Op {
	case token.ADD:
		r = app("addw", a.t, b.t, los, his)
	case token.SUB:
		r = app("subw", a.t, b.t, los, his)
	case token.MUL:
		r = app("wrapw", app("*", a.t, b.t), los, his)
	case token.QUO:
		fr.safe("div", g, not(eq(b.t, "0")), x.Pos(), "integer divide by zero")
		if lo.Sign() == 0 {
			r = app("div", a.t, b.t)
		} else {
			r = app("wrapw", app("tdiv", a.t, b.t), los, his)
		}
	case token.REM:
		fr.safe("div", g, not(eq(b.t, "0")), x.Pos(), "integer divide by zero")
		if lo.Sign() == 0 {
			r = app("mod", a.t, b.t)
		} else {
			r = app("trem", a.t, b.t)
		}
	case token.SHL:
		if k, ok := constShift(x.Y); ok {
			r = app("wrapw", app("*", a.t, pow2(k).String()), los, his)
		} else {
			r = app("wrapw", app("shlv", a.t, b.t), los, his)
		}
	case token.SHR:
		if k, ok := constShift(x.Y); ok {
			r = app("div", a.t, pow2(k).String()) // floor division == arithmetic shift
		} else {
			r = app("shrv", a.t, b.t)
		}
	case token.AND:
		r = fr.maskOp(x, a, b, lo)
	case token.OR:
		r = app("bor", a.t, b.t)
	case token.XOR:
		r = app("bxor", a.t, b.t)
	case token.AND_NOT:
		r = app("band", a.t, app("bxor", b.t, bignum(new(big.Int).Sub(hi, big.NewInt(1)))))
	default:
		fc.unsupported("binop " + x.Op.String())
		fr.freshVal(x, st, g)
		return
	}
	fr.setVal(x, "Int", r)
	if phi, isPhi := x.X.(*ssa.Phi); isPhi && x.Op == token.ADD && phi.Comment == "rangeindex" {
		// the increment of a range loop's index: spell out the no-wrap case of addw as a ground implication (a consequence of addw's
		// definition, so always sound). Without it some solver configurations spend their time in the ite of the wrap-around
		// arithmetic whenever an invariant relates the old and the new index (C34: ParseCustodianUpdateNodesExtra [content]).
		sum := app("+", a.t, b.t)
		fc.emit(fmt.Sprintf("(assert (=> (and (<= %s %s) (< %s %s)) (= %s %s)))", los, sum, sum, his, fr.vals[x].t, sum))
	}
	switch x.Op {
	case token.OR, token.XOR, token.AND_NOT, token.SHR, token.AND:
		// uninterpreted bit operations stay within the type
		fc.assume("true", tc.wf(fr.vals[x].t, x.Type(), ""))
	}
}

func (fr *Frame) maskOp(x *ssa.BinOp, a, b SV, lo *big.Int) string {
	// x & (2^k-1) == x mod 2^k for non-negative x
	for _, pair := range [][2]ssa.Value{{x.X, x.Y}, {x.Y, x.X}} {
		if c, ok := pair[1].(*ssa.Const); ok && c.Value != nil && lo.Sign() == 0 {
			m := new(big.Int).SetUint64(c.Uint64())
			m1 := new(big.Int).Add(m, big.NewInt(1))
			if m1.BitLen() > 0 && new(big.Int).And(m1, m).Sign() == 0 {
				return app("mod", fr.val(pair[0]).t, m1.String())
			}
		}
	}
	r := app("band", a.t, b.t)
	if lo.Sign() == 0 {
		fr.fc.assume("true", and(app("<=", r, a.t), app("<=", r, b.t)))
	}
	return r
}

func (fr *Frame) unop(x *ssa.UnOp, st *State, g string) {
	fc := fr.fc
	tc := fc.tc
	v := fr.val(x.X)
	switch x.Op {
	case token.MUL:
		fr.safe("nil", g, not(eq(v.t, nilPtr)), x.Pos(), "nil pointer dereference")
		et := x.X.Type().Underlying().(*types.Pointer).Elem()
		ld := fc.load(st, v.t, et)
		fr.setVal(x, tc.sortOf(x.Type()), ld)
		fc.assume(g, tc.wf(fr.vals[x].t, x.Type(), fc.watermark(st)))
		if strings.HasPrefix(ld, "(select H0_") {
			// read straight from a component of the ENTRY heap: whatever an OLD cell holds was allocated before entry.
			// (Only for cells that existed at entry: the fields of an object returned `fresh` by an assumed contract with
			// `modifies nothing` are also read from the entry component, and they may well point to other fresh objects --
			// assuming them old contradicted `fresh(result.Field)` and made everything after such a call vacuous.)
			// The guard is needed only when the address is derived from a call result (ext_kviter.go: addrFromCall).
			gg := g
			if addrFromCall(x.X, 0) {
				gg = and(g, app("<", app("root", v.t), compInit("W")))
			}
			fc.assume(gg, tc.wf(fr.vals[x].t, x.Type(), compInit("W")))
		} else {
			fr.entryClosureAtLoad(v.t, et, g) // ext_crypto.go: the same fact about the entry heap's value at this address
		}
	case token.NOT:
		fr.setVal(x, "Bool", not(v.t))
	case token.SUB:
		lo, hi, ok := rangeOf(x.Type())
		if !ok {
			fr.freshVal(x, st, g)
			return
		}
		fr.setVal(x, "Int", app("subw", "0", v.t, bignum(lo), bignum(hi)))
	case token.XOR:
		lo, hi, ok := rangeOf(x.Type())
		if !ok {
			fr.freshVal(x, st, g)
			return
		}
		if lo.Sign() == 0 {
			fr.setVal(x, "Int", app("-", bignum(new(big.Int).Sub(hi, big.NewInt(1))), v.t))
		} else {
			fr.setVal(x, "Int", app("-", app("-", v.t), "1"))
		}
	default:
		fc.unsupported("unop " + x.Op.String())
		fr.freshVal(x, st, g)
	}
}

func (fr *Frame) convert(x *ssa.Convert, st *State, g string) {
	fc := fr.fc
	tc := fc.tc
	v := fr.val(x.X)
	from, to := types.Unalias(x.X.Type()).Underlying(), types.Unalias(x.Type()).Underlying()
	fb, fok := from.(*types.Basic)
	tb, tok := to.(*types.Basic)
	switch {
	case fok && tok && fb.Info()&types.IsInteger != 0 && tb.Info()&types.IsInteger != 0:
		flo, fhi, _ := intRange(fb)
		tlo, thi, _ := intRange(tb)
		if flo == nil || tlo == nil {
			fr.vals[x] = SV{t: v.t, typ: x.Type()}
			return
		}
		if flo.Cmp(tlo) >= 0 && fhi.Cmp(thi) <= 0 {
			fr.vals[x] = SV{t: v.t, typ: x.Type()}
			return
		}
		fr.setVal(x, "Int", app("wrapw", v.t, bignum(tlo), bignum(thi)))
	case fok && tok && fb.Info()&types.IsInteger != 0 && tb.Kind() == types.Float64:
		// integer -> float64: the nearest float64 (exact up to 2^53)
		exact := fc.define(fr.name(x)+"_exact", "Real", app("to_real", v.t))
		fr.vals[x] = SV{t: fr.f64round(fr.name(x), exact, "true"), typ: x.Type()}
	case fok && fb.Info()&types.IsString != 0:
		// string -> []byte / []rune
		p := fc.alloc(st)
		pt := fc.define(fr.name(x)+"_arr", "Ptr", p)
		k, s := fc.bKey(types.Typ[types.Uint8])
		blk := fc.fresh("sb", "(Array Int Int)")
		fc.setComp(st, k, s, app("store", fc.comp(st, k, s), pt, blk))
		n := app("strlen", v.t)
		fc.assume("true", eq(app("str_of_bytes", blk, "0", n), v.t))
		fc.emit(fmt.Sprintf("(assert (forall ((i Int)) (! (=> (and (<= 0 i) (< i %s)) (= (select %s i) (strat %s i))) :pattern ((select %s i)))))", n, blk, v.t, blk))
		fc.strToBytesFact(blk, n, v.t) // ext_bytesalgebra.go
		fr.setVal(x, "Slice", mkSlice(pt, "0", n, n))
		fr.kvStringBytes(g, blk, n, v.t) // ext_kviter.go: kvkey([]byte(s)) == strkey(s)
		if _, used := fc.ufs["strseq"]; used {
			// only in functions whose specs mention strseq(): the new block holds the byte string of the Go string (see builtin strseq)
			fc.eng.declareUF(fc, "bseq", []string{"(Array Int Int)", "Int", "Int"}, "Int")
			fc.assume("true", eq(app("bseq", blk, "0", n), app("strseq", v.t)))
		}
		fc.kvstrFact(v.t, blk, "0", n) // ext_kvstr.go
	case tok && tb.Info()&types.IsString != 0:
		if _, isSl := from.(*types.Slice); isSl {
			k, s := fc.bKey(types.Typ[types.Uint8])
			blk := app("select", fc.comp(st, k, s), sarr(v.t))
			fr.setVal(x, "Str", app("str_of_bytes", blk, soff(v.t), slen(v.t)))
			fc.assume("true", eq(app("strlen", fr.vals[x].t), slen(v.t)))
			fc.bytesToStrFact(blk, soff(v.t), slen(v.t), fr.vals[x].t) // ext_bytesalgebra.go
			fc.kvstrFact(fr.vals[x].t, blk, soff(v.t), slen(v.t)) // ext_kvstr.go
			return
		}
		fc.unsupported("conversion to string from " + x.X.Type().String())
		fr.freshVal(x, st, g)
	default:
		if tc.sortOf(x.X.Type()) == tc.sortOf(x.Type()) && !(fok && fb.Info()&types.IsFloat != 0) && !(tok && tb.Info()&types.IsFloat != 0) {
			fr.vals[x] = SV{t: v.t, typ: x.Type()}
			return
		}
		if fr.floatToInt(x, v) { // ext_float.go: float64 -> integer truncates toward zero when in range
			return
		}
		fc.unsupported("conversion " + x.X.Type().String() + " -> " + x.Type().String())
		fr.freshVal(x, st, g)
	}
}

func isFloat64T(t types.Type) bool {
	b, ok := types.Unalias(t).Underlying().(*types.Basic)
	return ok && b.Kind() == types.Float64
}

// f64round returns a Real constant r standing for the float64 obtained by rounding the real number x (trusted model of
// IEEE-754 binary64 rounding for finite values without overflow; NaN/Inf are not modelled). Only facts that hold for every
// rounding mode are assumed: every integer of magnitude <= 2^53 is representable (so rounding is the identity there), and
// rounding is monotone (so it preserves the sign and the comparison with +-2^53).
func (fr *Frame) f64round(name, x, isInt string) string {
	fc := fr.fc
	fc.assumes["trusted model: float64 conversion/+/- round monotonically and are exact on integers of magnitude <= 2^53 (finite values only)"] = true
	const p53 = "9007199254740992.0"
	r := fc.fresh(name, "Real")
	fc.assume("true", implies(and(isInt, app("<=", "(- "+p53+")", x), app("<=", x, p53)), eq(r, x)))
	fc.assume("true", implies(app(">=", x, p53), app(">=", r, p53)))
	fc.assume("true", implies(app("<=", x, "(- "+p53+")"), app("<=", r, "(- "+p53+")")))
	fc.assume("true", implies(and(app("<=", "(- "+p53+")", x), app("<=", x, p53)), and(app("<=", "(- "+p53+")", r), app("<=", r, p53))))
	fc.assume("true", and(implies(app(">=", x, "0.0"), app(">=", r, "0.0")), implies(app("<=", x, "0.0"), app("<=", r, "0.0"))))
	// below 2^53 the spacing of float64 is at most 1, so the rounding error is below 1
	fc.assume("true", implies(and(app("<=", "(- "+p53+")", x), app("<=", x, p53)), and(app("<", app("-", r, x), "1.0"), app("<", app("-", x, r), "1.0"))))
	if isInt == "true" {
		// an integer rounds to an integer (every float64 of magnitude >= 2^52 is an integer)
		fc.assume("true", app("is_int", r))
	}
	return r
}

func (fr *Frame) lookup(x *ssa.Lookup, st *State, g string) {
	fc := fr.fc
	tc := fc.tc
	v := fr.val(x.X)
	k := fr.val(x.Index)
	if mt, ok := x.X.Type().Underlying().(*types.Map); ok {
		mh, mv := fc.mapComps(mt)
		has := app("select", app("select", fc.comp(st, mh, fc.comps[mh]), v.t), k.t)
		has = and(not(eq(v.t, nilPtr)), has)
		val := ite(has, app("select", app("select", fc.comp(st, mv, fc.comps[mv]), v.t), k.t), tc.zero(mt.Elem()))
		vt := fc.define(fr.name(x), tc.sortOf(mt.Elem()), val)
		fc.assume(g, tc.wf(vt, mt.Elem(), fc.watermark(st)))
		fr.mapEntryClosure(mt, v.t, k.t, g) // ext_crypto.go: heap closure of the entry state for this (map, key)
		if x.CommaOk {
			fr.vals[x] = SV{typ: x.Type(), tuple: []SV{{t: vt, typ: mt.Elem()}, {t: fc.define(fr.name(x)+"_ok", "Bool", has), typ: boolT}}}
		} else {
			fr.vals[x] = SV{t: vt, typ: x.Type()}
		}
		return
	}
	// string index
	fr.safe("index", g, and(app("<=", "0", k.t), app("<", k.t, app("strlen", v.t))), x.Pos(), "string index")
	fr.setVal(x, "Int", app("strat", v.t, k.t))
	fc.assume(g, tc.wf(fr.vals[x].t, x.Type(), ""))
}

func (fr *Frame) next(x *ssa.Next, st *State, g string) {
	fc := fr.fc
	tc := fc.tc
	rng := fr.val(x.Iter)
	tup := x.Type().(*types.Tuple)
	ok := fc.fresh(fr.name(x)+"_ok", "Bool")
	if x.IsString {
		i := fc.fresh(fr.name(x)+"_i", "Int")
		r := fc.fresh(fr.name(x)+"_r", "Int")
		fc.assume(g, implies(ok, and(app("<=", "0", i), app("<", i, app("strlen", rng.t)), app("<=", "0", r), app("<", r, "1114112"))))
		fr.vals[x] = SV{typ: x.Type(), tuple: []SV{{t: ok, typ: boolT}, {t: i, typ: tup.At(1).Type()}, {t: r, typ: tup.At(2).Type()}}}
		return
	}
	mt := rng.typ.Underlying().(*types.Map)
	if fr.mapRangeNext(x, rng, mt, st, g) {
		return // ext_crypto.go: iteration with a ghost visited set
	}
	mh, mv := fc.mapComps(mt)
	k := fc.fresh(fr.name(x)+"_k", tc.sortOf(mt.Key()))
	has := app("select", app("select", fc.comp(st, mh, fc.comps[mh]), rng.t), k)
	val := fc.define(fr.name(x)+"_v", tc.sortOf(mt.Elem()), app("select", app("select", fc.comp(st, mv, fc.comps[mv]), rng.t), k))
	fc.assume(g, implies(ok, and(not(eq(rng.t, nilPtr)), has, tc.wf(k, mt.Key(), fc.watermark(st)), tc.wf(val, mt.Elem(), fc.watermark(st)))))
	// an empty map yields no element
	fc.assume(g, implies(eq(app("select", fc.comp(st, "ML", "(Array Ptr Int)"), rng.t), "0"), not(ok)))
	fr.vals[x] = SV{typ: x.Type(), tuple: []SV{{t: ok, typ: boolT}, {t: k, typ: mt.Key()}, {t: val, typ: mt.Elem()}}}
}

func (fr *Frame) slice(x *ssa.Slice, st *State, g string) {
	fc := fr.fc
	v := fr.val(x.X)
	lo, hi, mx := "0", "", ""
	if x.Low != nil {
		lo = fr.val(x.Low).t
	}
	if x.High != nil {
		hi = fr.val(x.High).t
	}
	if x.Max != nil {
		mx = fr.val(x.Max).t
	}
	switch u := x.X.Type().Underlying().(type) {
	case *types.Slice:
		if hi == "" {
			hi = slen(v.t)
		}
		cp := scap(v.t)
		lim := cp
		if mx != "" {
			lim = mx
			fr.safe("slice", g, and(app("<=", "0", lo), app("<=", lo, hi), app("<=", hi, mx), app("<=", mx, cp)), x.Pos(), "slice bounds out of range")
		} else {
			fr.safe("slice", g, and(app("<=", "0", lo), app("<=", lo, hi), app("<=", hi, cp)), x.Pos(), "slice bounds out of range")
		}
		fr.setVal(x, "Slice", mkSlice(sarr(v.t), plus(soff(v.t), lo), minus(hi, lo), minus(lim, lo)))
		fr.kvSubSliceFact(st, g, v, u.Elem(), lo, hi) // ext_kviter.go: id of a sub-window == kvsub(id of the window, lo, hi)
	case *types.Pointer:
		arr := u.Elem().Underlying().(*types.Array)
		n := num(arr.Len())
		if hi == "" {
			hi = n
		}
		lim := n
		if mx != "" {
			lim = mx
		}
		fr.safe("nil", g, not(eq(v.t, nilPtr)), x.Pos(), "slice of nil array pointer")
		fr.safe("slice", g, and(app("<=", "0", lo), app("<=", lo, hi), app("<=", hi, lim), app("<=", lim, n)), x.Pos(), "slice bounds out of range")
		fr.setVal(x, "Slice", mkSlice(v.t, lo, minus(hi, lo), minus(lim, lo)))
	case *types.Basic:
		if hi == "" {
			hi = app("strlen", v.t)
		}
		fr.safe("slice", g, and(app("<=", "0", lo), app("<=", lo, hi), app("<=", hi, app("strlen", v.t))), x.Pos(), "string slice bounds out of range")
		fr.setVal(x, "Str", app("strsub", v.t, lo, hi))
		fc.assume(g, eq(app("strlen", fr.vals[x].t), minus(hi, lo)))
	default:
		fc.unsupported("slice of " + x.X.Type().String())
		fr.freshVal(x, st, g)
	}
}

func (fr *Frame) typeAssert(x *ssa.TypeAssert, st *State, g string) {
	fc := fr.fc
	tc := fc.tc
	v := fr.val(x.X)
	var okc, val string
	if types.IsInterface(x.AssertedType) {
		// interface-to-interface: succeeds for non-nil values implementing it; approximate as unknown for non-nil
		ok := fc.fresh(fr.name(x)+"_ok", "Bool")
		fc.assume(g, implies(ok, not(eq(app("itag", v.t), "0"))))
		okc, val = ok, v.t
	} else {
		okc = eq(app("itag", v.t), num(int64(tc.tagOf(x.AssertedType))))
		if tc.sortOf(x.AssertedType) == "Ptr" {
			val = app("iptr", v.t)
		} else {
			_, unbox := tc.boxFn(x.AssertedType)
			val = app(unbox, app("iptr", v.t))
		}
	}
	if x.CommaOk {
		okt := fc.define(fr.name(x)+"_ok", "Bool", okc)
		vt := fc.define(fr.name(x)+"_v", tc.sortOf(x.AssertedType), ite(okt, val, tc.zero(x.AssertedType)))
		fc.assume(g, tc.wf(vt, x.AssertedType, fc.watermark(st)))
		fr.vals[x] = SV{typ: x.Type(), tuple: []SV{{t: vt, typ: x.AssertedType}, {t: okt, typ: boolT}}}
		return
	}
	fr.safe("assert", g, okc, x.Pos(), "type assertion")
	fr.setVal(x, tc.sortOf(x.AssertedType), val)
	fc.assume(g, tc.wf(fr.vals[x].t, x.AssertedType, fc.watermark(st)))
}

func (fr *Frame) panicInstr(x *ssa.Panic, st *State, g string) {
	fc := fr.fc
	if fr.top && fr.spec != nil {
		if fr.noPanicOld != "" { // ext_nopanic.go: under the stated condition this panic must be unreachable
			fc.oblige(fr, "nopanic", "panic", g, not(fr.noPanicOld), x.Pos(), "explicit panic unreachable under the `nopanic when` condition", fr.props())
			return
		}
		if fr.spec.MayPanic {
			return
		}
		if len(fr.spec.PanicsWhen) > 0 {
			fc.oblige(fr, "panic-spec", "", g, or(fr.panicsWhenOld...), x.Pos(), "explicit panic only under the documented condition", fr.props())
			return
		}
	}
	fc.oblige(fr, "safe:panic", "", g, "false", x.Pos(), "explicit panic unreachable", fr.props())
}

func (fr *Frame) ret(x *ssa.Return, st *State, g string) {
	var res []SV
	for _, r := range x.Results {
		res = append(res, fr.val(r))
	}
	fr.rets = append(fr.rets, retRec{guard: g, results: res, state: st.clone()})
	if !fr.top {
		return
	}
	fc := fr.fc
	if fr.spec != nil {
		if len(fr.spec.PanicsWhen) > 0 {
			fc.oblige(fr, "panic-iff", "", g, not(or(fr.panicsWhenOld...)), x.Pos(), "normal return only outside the documented panic condition", fr.props())
		}
		fr.applyHints("return", "", x.Block(), st, g, res)
		fr.checkFrame(st, g, "return", x.Pos(), nil)
		fr.checkDeleteOnly(st, g, x) // `modifies m[-]` (ext_c24.go)
		env := fr.specEnv(st, fr.entry)
		fr.bindResults(env, res)
		for i, cl := range fr.spec.Ensures {
			if !clauseActive(cl) { // ext_propfilter.go: a clause of another property is proved by that property's check
				continue
			}
			t, err := env.evalBool(cl.E)
			if err != nil {
				fc.eng.stale(fr.spec, cl, err)
				continue
			}
			label := cl.Label
			if label == "" {
				label = fmt.Sprint(i)
			}
			props := cl.Props
			if len(props) == 0 {
				props = fr.props()
			}
			fc.oblige(fr, "post", label, g, t, x.Pos(), cl.Text, props)
		}
	}
	if name := fmt.Sprintf("return@%d", x.Block().Index); fr.spec != nil && fr.spec.Unreachable[name] {
		fc.oblige(fr, "unreachable", name, g, "false", x.Pos(), "declared unreachable (defensive branch)", fr.props())
	} else {
		fc.cover(name, g)
	}
}

// applyHints checks and then assumes the intermediate assertions of the contract at this program point.
func (fr *Frame) applyHints(where, calleeKey string, b *ssa.BasicBlock, st *State, g string, res []SV) {
	if !fr.top || fr.spec == nil || len(fr.spec.Hints) == 0 {
		return
	}
	fc := fr.fc
	for i, h := range fr.spec.Hints {
		if h.Where != where || !clauseActive(h.Clause) { // ext_propfilter.go
			continue
		}
		if where == "after" && !(strings.HasSuffix(calleeKey, "."+h.Callee) || strings.HasSuffix(calleeKey, ")."+h.Callee) || calleeKey == h.Callee) {
			continue
		}
		fr.localsSameBlock = true
		locals, addrs := fr.localsAt(b, -1)
		fr.localsSameBlock = false
		fr.curLocals, fr.curLocalAddrs = locals, addrs
		env := fr.specEnv(st, fr.entry)
		if res != nil {
			fr.bindResults(env, res)
		}
		for i, r := range fr.lastCallRes {
			env.vars[fmt.Sprintf("callresult%d", i)] = r
			if i == 0 {
				env.vars["callresult"] = r
			}
			if i == len(fr.lastCallRes)-1 && r.typ != nil && isErrorType(r.typ) {
				env.vars["callerr"] = r // the last result of the call, if it is an error
			}
		}
		t, err := env.evalBool(h.Clause.E)
		fr.curLocals, fr.curLocalAddrs = nil, nil
		if err != nil && where == "return" {
			// a `hint return` may name a local that is not in scope at an early return: it is skipped there,
			// and reported stale (verify.go) only if it could be evaluated at NO return.
			if fr.hintErr == nil {
				fr.hintErr = map[int]error{}
			}
			fr.hintErr[i] = err
			fr.hintUnavailable(i, h, b, st, g, res, err) // ext_hintguard.go: obligation / warning instead of a silent skip
			continue
		}
		if err != nil {
			fc.eng.stale(fr.spec, h.Clause, err)
			continue
		}
		if fr.hintOK == nil {
			fr.hintOK = map[int]bool{}
		}
		fr.hintOK[i] = true
		label := h.Clause.Label
		if label == "" {
			label = fmt.Sprint(i)
		}
		hprops := h.Clause.Props
		if len(hprops) == 0 {
			hprops = fr.props()
		}
		fc.oblige(fr, "hint", label, g, t, token.NoPos, h.Clause.Text, hprops)
	}
}

func (fr *Frame) bindResults(env *SpecEnv, res []SV) {
	sig := fr.fn.Signature
	env.results = res
	for i, r := range res {
		env.vars[resultName(sig, i)] = r
		env.vars[fmt.Sprintf("result%d", i)] = r
		if i == len(res)-1 && isErrorType(r.typ) {
			if _, ok := env.vars["err"]; !ok || true {
				env.vars["err"] = r
			}
		}
	}
	if len(res) == 1 {
		env.vars["result"] = res[0]
	}
}

func isErrorType(t types.Type) bool {
	return t != nil && types.Identical(t, types.Universe.Lookup("error").Type())
}

// specEnv builds the evaluation environment for the frame's own contract.
func (fr *Frame) specEnv(cur, old *State) *SpecEnv {
	env := &SpecEnv{fc: fr.fc, fr: fr, vars: map[string]SV{}, cur: cur, old: old, pkg: fr.fn.Pkg.Pkg}
	names := paramNames(fr.spec, fr.fn.Signature)
	for i, p := range fr.params {
		if i < len(names) {
			env.vars[names[i]] = p
		}
		if i < len(fr.fn.Params) {
			env.vars[fr.fn.Params[i].Name()] = p
		}
	}
	for i, fv := range fr.fn.FreeVars {
		if i < len(fr.bindings) {
			// captured variables are passed by reference
			if pt, ok := fv.Type().Underlying().(*types.Pointer); ok {
				env.vars[fv.Name()] = SV{t: fr.fc.load(cur, fr.bindings[i].t, pt.Elem()), typ: pt.Elem()}
			}
		}
	}
	return env
}

// ---- locals for loop invariants ----

func (fr *Frame) hasLocal(name string) bool {
	for _, p := range fr.fn.Params {
		if p.Name() == name {
			return true
		}
	}
	for _, fv := range fr.fn.FreeVars {
		if fv.Name() == name {
			return true
		}
	}
	return fr.curLocals != nil && fr.curLocals[name] != nil
}

// lookupLocal resolves a source-level local variable name at the current invariant point.
func (fr *Frame) lookupLocal(name string, st *State) (SV, bool) {
	if fr.curLocals == nil {
		return SV{}, false
	}
	v, ok := fr.curLocals[name]
	if !ok {
		return SV{}, false
	}
	return v(st), true
}

func (fr *Frame) lookupLocalAddr(name string) (string, types.Type, bool) {
	if fr.curLocalAddrs == nil {
		return "", nil, false
	}
	a, ok := fr.curLocalAddrs[name]
	if !ok {
		return "", nil, false
	}
	return a.t, a.typ, true
}

// localsAt computes the name->value map visible at loop header h for the given incoming edge
// (pidx >= 0: phi values taken from that edge; pidx < 0: the header's own phi values).
func (fr *Frame) localsAt(h *ssa.BasicBlock, pidx int) (map[string]func(*State) SV, map[string]SV) {
	out := map[string]func(*State) SV{}
	addrs := map[string]SV{}
	fc := fr.fc
	fr.lastValRef = nil
	// debug refs whose value dominates h
	for _, b := range fr.fn.Blocks {
		if !(b.Dominates(h)) {
			continue
		}
		for _, in := range b.Instrs {
			d, ok := in.(*ssa.DebugRef)
			if !ok {
				continue
			}
			id, ok := d.Expr.(*ast.Ident)
			if !ok {
				continue
			}
			if b == h && !fr.localsSameBlock {
				// only refs before the first non-phi use are safe; skip refs inside the header body
				if _, isPhi := d.X.(*ssa.Phi); !isPhi {
					if vb := valueBlock(d.X); vb == h {
						continue
					}
				}
			}
			// a debug ref to a phi of the header itself (e.g. `i` of a `for i := range n` loop, whose phi comment is
			// "rangeint.iter", not the source name): on an incoming edge the name denotes the value flowing in along
			// that edge, exactly like the by-comment lookup below; otherwise inv-init sees an undefined value and
			// inv-keep would be checked against the OLD iteration's value (vacuous).
			if phi, isPhi := d.X.(*ssa.Phi); isPhi && b == h && phi.Block() == h && pidx >= 0 && !d.IsAddr {
				sv := fr.val(phi.Edges[pidx])
				sv.typ = phi.Type()
				out[id.Name] = func(*State) SV { return sv }
				continue
			}
			if _, known := fr.vals[d.X]; !known {
				if _, isC := d.X.(*ssa.Const); !isC {
					if _, isG := d.X.(*ssa.Global); !isG {
						continue
					}
				}
			}
			x := d.X
			if d.IsAddr {
				sv := fr.val(x)
				pt, ok := x.Type().Underlying().(*types.Pointer)
				if !ok {
					continue
				}
				addrs[id.Name] = SV{t: sv.t, typ: pt.Elem()}
				out[id.Name] = func(st *State) SV { return SV{t: fc.load(st, sv.t, pt.Elem()), typ: pt.Elem()} }
			} else {
				sv := fr.val(x)
				out[id.Name] = func(*State) SV { return sv }
				if fr.lastValRef == nil {
					fr.lastValRef = map[string]*ssa.BasicBlock{}
				}
				fr.lastValRef[id.Name] = b // ext_locals.go: a debug ref AFTER an earlier loop wins over that loop's phi (below)
			}
		}
	}
	fr.addrTakenLocals(h, out, addrs) // ext_locals.go: address-taken locals denote the current content of their cell
	// composite-literal slices (`for _, x := range []T{...}`): the backing array has no source name;
	// expose the k-th such allocation that dominates h as `slicelit` (k == 0) / `slicelit_<k>` (a *[N]T value).
	nlit := 0
	for _, b := range fr.fn.Blocks {
		if b == h || !b.Dominates(h) {
			continue
		}
		for _, in := range b.Instrs {
			a, ok := in.(*ssa.Alloc)
			if !ok || a.Comment != "slicelit" {
				continue
			}
			if _, known := fr.vals[a]; known {
				sv := fr.val(a)
				name := "slicelit"
				if nlit > 0 {
					name = fmt.Sprintf("slicelit_%d", nlit)
				}
				out[name] = func(*State) SV { return sv }
			}
			nlit++
		}
	}
	// named phis of dominating blocks (e.g. the result of an earlier loop)
	for _, b := range fr.fn.Blocks {
		if b == h || !b.Dominates(h) {
			continue
		}
		for _, in := range b.Instrs {
			phi, ok := in.(*ssa.Phi)
			if !ok {
				break
			}
			if phi.Comment == "" {
				continue
			}
			if strings.HasPrefix(phi.Comment, "range") {
				// the index phi of an EARLIER loop (already left at h): addressable as rangeindex_<loop ordinal> — the index of the
				// last element processed when the loop was left (needed by `hint return` after a loop)
				if li := fr.loops[b]; li != nil && !li.body[h] {
					if sv, known := fr.vals[phi]; known {
						out[fmt.Sprintf("%s_%d", strings.ReplaceAll(phi.Comment, ".", "_"), li.ordinal)] = func(*State) SV { return sv }
					}
				}
				continue
			}
			if sv, known := fr.vals[phi]; known {
				if li := fr.loops[b]; li != nil && li.body[h] {
					continue // enclosing loop: handled below
				}
				if rb := fr.lastValRef[phi.Comment]; rb != nil && rb != b && b.Dominates(rb) && fr.loops[b] != nil && !fr.loops[b].body[rb] {
					continue // the variable was re-bound after that loop (key = append(key, …) past the loop): the later value is current
				}
				out[phi.Comment] = func(*State) SV { return sv }
			}
		}
	}
	// header phis by comment (source name) override
	for _, in := range h.Instrs {
		phi, ok := in.(*ssa.Phi)
		if !ok {
			break
		}
		if phi.Comment == "" {
			continue
		}
		var sv SV
		if pidx >= 0 {
			sv = fr.val(phi.Edges[pidx])
			sv.typ = phi.Type()
		} else {
			sv = fr.vals[phi]
		}
		name := phi.Comment
		out[name] = func(*State) SV { return sv }
		delete(addrs, name)
		if li := fr.loops[h]; li != nil {
			out[fmt.Sprintf("%s_%d", name, li.ordinal)] = func(*State) SV { return sv }
		}
		if alias := strings.ReplaceAll(name, ".", "_"); alias != name {
			// `for range n` loops: the phi comment "rangeint.iter" is not an identifier; expose it as rangeint_iter
			out[alias] = func(*State) SV { return sv }
			if li := fr.loops[h]; li != nil {
				out[fmt.Sprintf("%s_%d", alias, li.ordinal)] = func(*State) SV { return sv }
			}
		}
	}
	// source names bound to a header phi by a debug ref in the header (e.g. `i` of `for i := range n`, whose phi is
	// commented "rangeint.iter"): same value as the phi on this edge
	for _, in := range h.Instrs {
		d, ok := in.(*ssa.DebugRef)
		if !ok || d.IsAddr {
			continue
		}
		id, ok := d.Expr.(*ast.Ident)
		phi, isPhi := d.X.(*ssa.Phi)
		if !ok || !isPhi || phi.Block() != h {
			continue
		}
		var sv SV
		if pidx >= 0 {
			sv = fr.val(phi.Edges[pidx])
			sv.typ = phi.Type()
		} else {
			var known bool
			if sv, known = fr.vals[phi]; !known {
				continue
			}
		}
		v := sv
		out[id.Name] = func(*State) SV { return v }
		delete(addrs, id.Name)
	}
	// range loops over an unnamed slice expression (`for _, x := range f()`): expose the ranged slice as `rangeexpr`
	// (and `rangeexpr_<loop ordinal>`). go/ssa lowers the loop to `n = len(s)` in the preheader and `i+1 < n` in the header.
	for _, in := range h.Instrs {
		b, ok := in.(*ssa.BinOp)
		if !ok || b.Op != token.LSS {
			continue
		}
		if xb, ok := b.X.(*ssa.BinOp); !ok || xb.Op != token.ADD {
			continue
		} else if p, ok := xb.X.(*ssa.Phi); !ok || p.Comment != "rangeindex" {
			continue
		}
		c, ok := b.Y.(*ssa.Call)
		if !ok || len(c.Call.Args) != 1 {
			continue
		}
		if bi, ok := c.Call.Value.(*ssa.Builtin); !ok || bi.Name() != "len" {
			continue
		}
		if _, isSl := c.Call.Args[0].Type().Underlying().(*types.Slice); !isSl {
			continue
		}
		if sv, known := fr.vals[c.Call.Args[0]]; known {
			out["rangeexpr"] = func(*State) SV { return sv }
			if li := fr.loops[h]; li != nil {
				out[fmt.Sprintf("rangeexpr_%d", li.ordinal)] = func(*State) SV { return sv }
			}
		}
	}
	// phis of enclosing loop headers, addressable as <name>_<loop ordinal>
	for oh, li := range fr.loops {
		if oh == h || !oh.Dominates(h) || !li.body[h] {
			continue
		}
		for _, in := range oh.Instrs {
			phi, ok := in.(*ssa.Phi)
			if !ok {
				break
			}
			if phi.Comment == "" {
				continue
			}
			sv, known := fr.vals[phi]
			if !known {
				continue
			}
			n := fmt.Sprintf("%s_%d", strings.ReplaceAll(phi.Comment, ".", "_"), li.ordinal)
			out[n] = func(*State) SV { return sv }
			if _, dup := out[phi.Comment]; !dup {
				out[phi.Comment] = func(*State) SV { return sv }
			}
		}
	}
	fr.namedHeapVars(h, out, addrs) // ext_kviter.go: captured (heap-allocated) variables without an address debug ref
	return out, addrs
}

func valueBlock(v ssa.Value) *ssa.BasicBlock {
	if in, ok := v.(ssa.Instruction); ok {
		return in.Block()
	}
	return nil
}

func (fr *Frame) invariantsOf(li *loopInfo) []Clause {
	if fr.spec == nil {
		return nil
	}
	if fr.top {
		return activeClauses(fr.spec.LoopInv[li.ordinal]) // ext_propfilter.go
	}
	return fr.spec.LoopInv[li.ordinal]
}

func (fr *Frame) autoInvariants(li *loopInfo, locals map[string]func(*State) SV, st *State, phiVal func(*ssa.Phi) SV) []string {
	// canonical range/index loops: 0 <= i <= len for rangeindex phis
	var out []string
	for _, in := range li.header.Instrs {
		phi, ok := in.(*ssa.Phi)
		if !ok {
			break
		}
		if phi.Comment == "rangeindex" {
			// t = phi [-1, t+1]; bound: -1 <= i < len
			v := phiVal(phi)
			out = append(out, app("<=", "(- 1)", v.t))
			// find the length compared against: i+1 < len in header
			for _, in2 := range li.header.Instrs {
				if b, ok := in2.(*ssa.BinOp); ok && b.Op == token.LSS {
					if _, known := fr.vals[b.Y]; known || isConstLike(b.Y) {
						out = append(out, app("<", v.t, fr.val(b.Y).t))
					}
				}
			}
		}
		if phi.Comment == "rangeint.iter" {
			v := phiVal(phi)
			out = append(out, app("<=", "0", v.t))
		}
	}
	return out
}

func isConstLike(v ssa.Value) bool {
	switch v.(type) {
	case *ssa.Const, *ssa.Global, *ssa.Parameter:
		return true
	}
	return false
}

func (fr *Frame) checkInvariants(li *loopInfo, e inEdge, kind string) {
	fc := fr.fc
	st := fr.out[e.pred]
	locals, addrs := fr.localsAt(li.header, e.pidx)
	fr.curLocals, fr.curLocalAddrs = locals, addrs
	fr.curVisLoop = li
	defer func() { fr.curLocals, fr.curLocalAddrs, fr.curVisLoop = nil, nil, nil }()
	for _, a := range fr.autoInvariants(li, locals, st, func(p *ssa.Phi) SV { v := fr.val(p.Edges[e.pidx]); return v }) {
		fc.oblige(fr, kind, fmt.Sprintf("L%d:auto", li.ordinal), e.guard, a, li.header.Instrs[0].Pos(), "automatic range bound", fr.props())
	}
	env := fr.specEnv(st, fr.entry)
	env.loopEntry = li.entry // inv-keep: the state in which the loop was entered
	if kind == "inv-init" {
		env.loopEntry = st // on an entry edge the loop-entry state is the state of that edge
	}
	for i, cl := range fr.invariantsOf(li) {
		t, err := env.evalBool(cl.E)
		if err != nil {
			fc.eng.stale(fr.spec, cl, err)
			continue
		}
		label := cl.Label
		if label == "" {
			label = fmt.Sprint(i)
		}
		props := cl.Props
		if len(props) == 0 {
			props = fr.props()
		}
		fc.oblige(fr, kind, fmt.Sprintf("L%d:%s", li.ordinal, label), e.guard, t, loopPos(li), cl.Text, props)
	}
}

func (fr *Frame) assumeInvariants(li *loopInfo, st *State, g string) {
	fc := fr.fc
	locals, addrs := fr.localsAt(li.header, -1)
	fr.curLocals, fr.curLocalAddrs = locals, addrs
	fr.curVisLoop = li
	defer func() { fr.curLocals, fr.curLocalAddrs, fr.curVisLoop = nil, nil, nil }()
	for _, a := range fr.autoInvariants(li, locals, st, func(p *ssa.Phi) SV { return fr.vals[p] }) {
		fc.assume(g, a)
	}
	env := fr.specEnv(st, fr.entry)
	env.loopEntry = li.entry
	for _, cl := range fr.invariantsOf(li) {
		t, err := env.evalBool(cl.E)
		if err != nil {
			fc.eng.stale(fr.spec, cl, err)
			continue
		}
		fc.assume(g, t)
	}
}

func (fr *Frame) runDefers(st *State, g string) {
	// deferred calls run LIFO; each is applied conditionally on its defer site having executed
	for i := len(fr.defers) - 1; i >= 0; i-- {
		d := fr.defers[i]
		dg, ok := fr.guard[d.Block()]
		if !ok {
			continue
		}
		if d.Block().Dominates(fr.curBlock) && fr.curBlock != nil {
			fr.call(d, d.Common(), st, g)
			continue
		}
		// conditional: apply on a copy and merge
		st2 := st.clone()
		fr.call(d, d.Common(), st2, and(g, dg))
		for k, v := range st2.heap {
			if st.heap[k] != v {
				old, has := st.heap[k]
				if !has {
					old = compInit(k)
				}
				st.heap[k] = fr.fc.define("H_"+mangle(k), fr.fc.comps[k], ite(dg, v, old))
			}
		}
	}
}

var _ = strings.Contains
