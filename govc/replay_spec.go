package main

import (
	"fmt"
	"go/constant"
	"go/types"
	"strconv"
	"strings"
)

// Translation of contract clauses into Go source that is evaluated inside the replay test, on the real inputs and
// results. Integer arithmetic is mathematical (math/big) exactly as in specs; `/` and `%` are SMT div/mod (Euclidean).
// Quantifiers are executable only when every bound variable has integer bounds in the guard. Everything else
// (uninterpreted functions, ghost state, fresh(), seq() ...) is reported as inexpressible.

type inexprErr struct{ msg string }

type trVar struct {
	code  string
	typ   types.Type
	thunk Expr // call-by-name argument of an expanded spec function
	tenv  *trEnv
}

type trEnv struct {
	vars  map[string]trVar
	pkg   *types.Package // package whose scope resolves unqualified names
	depth int
}

func (e *trEnv) child() *trEnv {
	n := &trEnv{vars: map[string]trVar{}, pkg: e.pkg, depth: e.depth}
	for k, v := range e.vars {
		n.vars[k] = v
	}
	return n
}

type trRes struct {
	code   string
	typ    types.Type // static Go type when known (access paths)
	isBool bool       // code is a Go bool expression
}

type specTr struct {
	g      *genCtx
	fc     *FnCtx
	post   bool     // clause evaluated after the call: old(E) is hoisted before the call
	hoists []string // statements executed before the call
	n      int
	senv   *SpecEnv
}

func (tr *specTr) fail(format string, args ...any) {
	panic(inexprErr{fmt.Sprintf(format, args...)})
}

func (tr *specTr) fresh(prefix string) string {
	tr.n++
	return fmt.Sprintf("govc%s%d", prefix, tr.n)
}

// translate returns Go source of a bool expression for clause e, or an error saying why it is not executable.
func (tr *specTr) translate(e Expr, env *trEnv) (code string, err error) {
	defer func() {
		if r := recover(); r != nil {
			switch x := r.(type) {
			case inexprErr:
				err = fmt.Errorf("%s", x.msg)
			case specErr:
				err = fmt.Errorf("%s", x.msg)
			case unsupportedErr:
				err = fmt.Errorf("%s", x.msg)
			default:
				panic(r)
			}
		}
	}()
	r := tr.tr(e, env)
	return tr.asBool(r), nil
}

func (tr *specTr) asBool(r trRes) string {
	if r.isBool {
		return r.code
	}
	return "govcReplayBool(" + r.code + ")"
}

func (tr *specTr) lookupPkg(env *trEnv, name string) *types.Package {
	se := &SpecEnv{fc: tr.fc, pkg: env.pkg}
	return se.lookupPkg(name)
}

// pkgRef returns the Go source naming exported object name of package p.
func (tr *specTr) pkgRef(p *types.Package, name string) string {
	if p == tr.g.pkg {
		return name
	}
	if !types.NewVar(0, p, name, nil).Exported() {
		tr.fail("%s.%s is not accessible from package %s", p.Name(), name, tr.g.pkg.Name())
	}
	return tr.g.alias(p) + "." + name
}

func constCode(c *types.Const) (trRes, bool) {
	v := c.Val()
	switch v.Kind() {
	case constant.Bool:
		return trRes{code: strconv.FormatBool(constant.BoolVal(v)), isBool: true}, true
	case constant.Int:
		return trRes{code: fmt.Sprintf("govcReplayN(%q)", v.ExactString())}, true
	case constant.String:
		return trRes{code: strconv.Quote(constant.StringVal(v)), typ: types.Typ[types.String]}, true
	case constant.Float:
		if i := constant.ToInt(v); i.Kind() == constant.Int {
			return trRes{code: fmt.Sprintf("govcReplayN(%q)", i.ExactString())}, true
		}
	}
	return trRes{}, false
}

func (tr *specTr) objRef(p *types.Package, o types.Object, name string) (trRes, bool) {
	switch o := o.(type) {
	case *types.Const:
		if r, ok := constCode(o); ok {
			return r, true
		}
		tr.fail("constant %s is not expressible", name)
	case *types.Var:
		return trRes{code: tr.pkgRef(p, name), typ: o.Type()}, true
	}
	return trRes{}, false
}

func isBoolT(t types.Type) bool {
	if t == nil {
		return false
	}
	b, ok := types.Unalias(t).Underlying().(*types.Basic)
	return ok && b.Info()&types.IsBoolean != 0
}

func (tr *specTr) tr(x Expr, env *trEnv) trRes {
	switch x := x.(type) {
	case *ENum:
		return trRes{code: fmt.Sprintf("govcReplayN(%q)", x.Val)}
	case *EStr:
		return trRes{code: strconv.Quote(x.Val), typ: types.Typ[types.String]}
	case *EIdent:
		if v, ok := env.vars[x.Name]; ok {
			if v.thunk != nil {
				return tr.tr(v.thunk, v.tenv)
			}
			return trRes{code: v.code, typ: v.typ, isBool: isBoolT(v.typ)}
		}
		switch x.Name {
		case "true", "false":
			return trRes{code: x.Name, isBool: true}
		case "nil":
			return trRes{code: "nil", typ: types.Typ[types.UntypedNil]}
		}
		if env.pkg != nil {
			if r, ok := tr.objRef(env.pkg, env.pkg.Scope().Lookup(x.Name), x.Name); ok {
				return r
			}
		}
		tr.fail("identifier %s is not available at run time", x.Name)
	case *EOld:
		if !tr.post {
			return tr.tr(x.X, env)
		}
		// evaluated (and snapshotted one level deep) before the call
		sub := &specTr{g: tr.g, fc: tr.fc, post: false, n: tr.n}
		for name, v := range env.vars {
			if strings.HasPrefix(v.code, "govcq") {
				if exprMentions(x.X, name) {
					tr.fail("old(%s) depends on a quantified variable", exprString(x.X))
				}
			}
		}
		r := sub.tr(x.X, env)
		tr.n = sub.n
		name := tr.fresh("Old")
		tr.hoists = append(tr.hoists, sub.hoists...)
		tr.hoists = append(tr.hoists, fmt.Sprintf("%s := govcReplaySnap(%s); _ = %s", name, r.code, name))
		return trRes{code: name, typ: r.typ, isBool: r.isBool}
	case *EUnary:
		switch x.Op {
		case "!":
			return trRes{code: "!(" + tr.asBool(tr.tr(x.X, env)) + ")", isBool: true}
		case "-":
			return trRes{code: "govcReplayArith(\"-\", govcReplayN(\"0\"), " + tr.tr(x.X, env).code + ")"}
		case "*":
			r := tr.tr(x.X, env)
			var et types.Type
			if r.typ != nil {
				if pt, ok := types.Unalias(r.typ).Underlying().(*types.Pointer); ok {
					et = pt.Elem()
				}
			}
			return trRes{code: "(*(" + r.code + "))", typ: et, isBool: isBoolT(et)}
		case "&":
			r := tr.tr(x.X, env)
			var pt types.Type
			if r.typ != nil {
				pt = types.NewPointer(r.typ)
			}
			return trRes{code: "(&(" + r.code + "))", typ: pt}
		}
	case *EIte:
		c := tr.asBool(tr.tr(x.C, env))
		a, b := tr.tr(x.A, env), tr.tr(x.B, env)
		if a.isBool && b.isBool {
			return trRes{code: fmt.Sprintf("func() bool { if %s { return %s }; return %s }()", c, a.code, b.code), isBool: true}
		}
		if a.typ != nil && b.typ != nil && types.Identical(a.typ, b.typ) && !isNilType(a.typ) {
			if ts, ok := tr.g.tryTypeStr(a.typ); ok {
				return trRes{code: fmt.Sprintf("func() %s { if %s { return %s }; return %s }()", ts, c, a.code, b.code), typ: a.typ}
			}
		}
		return trRes{code: fmt.Sprintf("func() any { if %s { return %s }; return %s }()", c, a.code, b.code)}
	case *ELet:
		v := tr.tr(x.Val, env)
		name := tr.fresh("Let")
		n := env.child()
		n.vars[x.Name] = trVar{code: name, typ: v.typ}
		if v.isBool && v.typ == nil {
			n.vars[x.Name] = trVar{code: name, typ: boolT}
		}
		b := tr.tr(x.Body, n)
		rt := "any"
		if b.isBool {
			rt = "bool"
		}
		return trRes{code: fmt.Sprintf("func() %s { %s := %s; _ = %s; return %s }()", rt, name, v.code, name, b.code), isBool: b.isBool}
	case *EBinary:
		switch x.Op {
		case "&&", "||":
			return trRes{code: "(" + tr.asBool(tr.tr(x.X, env)) + " " + x.Op + " " + tr.asBool(tr.tr(x.Y, env)) + ")", isBool: true}
		case "==>":
			return trRes{code: "(!(" + tr.asBool(tr.tr(x.X, env)) + ") || " + tr.asBool(tr.tr(x.Y, env)) + ")", isBool: true}
		case "<==>":
			return trRes{code: "((" + tr.asBool(tr.tr(x.X, env)) + ") == (" + tr.asBool(tr.tr(x.Y, env)) + "))", isBool: true}
		case "==", "!=", "<", "<=", ">", ">=":
			a, b := tr.tr(x.X, env), tr.tr(x.Y, env)
			return trRes{code: fmt.Sprintf("govcReplayCmp(%q, %s, %s)", x.Op, a.code, b.code), isBool: true}
		case "+", "-", "*", "/", "%", "<<", ">>", "&", "|", "^":
			a, b := tr.tr(x.X, env), tr.tr(x.Y, env)
			return trRes{code: fmt.Sprintf("govcReplayArith(%q, %s, %s)", x.Op, a.code, b.code)}
		}
		tr.fail("operator %s", x.Op)
	case *EQuant:
		return tr.quant(x, env)
	case *ESel:
		if id, ok := x.X.(*EIdent); ok {
			if _, isVar := env.vars[id.Name]; !isVar {
				if p := tr.lookupPkg(env, id.Name); p != nil && (env.pkg == nil || env.pkg.Scope().Lookup(id.Name) == nil) {
					if r, ok := tr.objRef(p, p.Scope().Lookup(x.Name), x.Name); ok {
						return r
					}
					tr.fail("%s.%s is not a constant or variable", id.Name, x.Name)
				}
			}
		}
		r := tr.tr(x.X, env)
		var ft types.Type
		if r.typ != nil {
			obj, _, _ := types.LookupFieldOrMethod(r.typ, true, tr.g.pkg, x.Name)
			if fv, ok := obj.(*types.Var); ok {
				ft = fv.Type()
			} else if n, isN := derefNamed(r.typ); isN && n.Obj().Pkg() != nil && n.Obj().Pkg() != tr.g.pkg {
				if obj2, _, _ := types.LookupFieldOrMethod(r.typ, true, n.Obj().Pkg(), x.Name); obj2 != nil {
					tr.fail("field %s of %s is not accessible from package %s", x.Name, shortType(r.typ.String()), tr.g.pkg.Name())
				}
			}
		}
		return trRes{code: r.code + "." + x.Name, typ: ft, isBool: isBoolT(ft)}
	case *EIndex:
		r := tr.tr(x.X, env)
		i := tr.tr(x.I, env)
		var et types.Type
		if r.typ != nil {
			switch u := types.Unalias(r.typ).Underlying().(type) {
			case *types.Slice:
				et = u.Elem()
			case *types.Array:
				et = u.Elem()
			case *types.Pointer:
				if a, ok := isArrayT(u.Elem()); ok {
					et = a.Elem()
				}
			case *types.Map:
				if i.typ == nil {
					tr.fail("map index %s has no static Go type", exprString(x.I))
				}
				return trRes{code: r.code + "[" + i.code + "]", typ: u.Elem(), isBool: isBoolT(u.Elem())}
			case *types.Basic:
				et = types.Typ[types.Uint8]
			}
		}
		return trRes{code: r.code + "[govcReplayIdx(" + i.code + ")]", typ: et, isBool: isBoolT(et)}
	case *ESlice:
		r := tr.tr(x.X, env)
		lo, hi := "", ""
		if x.Lo != nil {
			lo = "govcReplayIdx(" + tr.tr(x.Lo, env).code + ")"
		}
		if x.Hi != nil {
			hi = "govcReplayIdx(" + tr.tr(x.Hi, env).code + ")"
		}
		return trRes{code: r.code + "[" + lo + ":" + hi + "]", typ: r.typ}
	case *ECall:
		return tr.call(x, env)
	}
	tr.fail("cannot express %s in Go", exprString(x))
	return trRes{}
}

var replayIntConv = map[string]bool{"int": true, "uint64": true, "uint32": true, "uint16": true, "uint8": true, "byte": true, "int64": true, "int32": true, "uint": true, "mathint": true}

func (tr *specTr) call(x *ECall, env *trEnv) trRes {
	arg := func(i int) trRes {
		if i >= len(x.Args) {
			tr.fail("%s: missing argument", exprString(x))
		}
		return tr.tr(x.Args[i], env)
	}
	if id, ok := x.Fn.(*EIdent); ok {
		if _, shadow := env.vars[id.Name]; !shadow {
			switch id.Name {
			case "len", "cap":
				return trRes{code: "govcReplayInt(" + id.Name + "(" + arg(0).code + "))"}
			case "has":
				m, k := arg(0), arg(1)
				return trRes{code: fmt.Sprintf("func() bool { _, ok := %s[%s]; return ok }()", m.code, k.code), isBool: true}
			case "val":
				return trRes{code: "govcReplayVal(" + arg(0).code + ")"}
			case "min", "max", "tdiv", "trem":
				return trRes{code: fmt.Sprintf("govcReplayArith(%q, %s, %s)", id.Name, arg(0).code, arg(1).code)}
			case "abs":
				return trRes{code: "govcReplayArith(\"abs\", " + arg(0).code + ", nil)"}
			case "isnil":
				return trRes{code: "govcReplayIsNil(" + arg(0).code + ")", isBool: true}
			case "lexlt":
				return trRes{code: fmt.Sprintf("govcReplayLexLt(%s, %s)", arg(0).code, arg(1).code), isBool: true}
			case "bigbytes":
				return trRes{code: "govcReplayBigBytes(" + arg(0).code + ")"}
			case "typeis":
				se := &SpecEnv{fc: tr.fc, pkg: env.pkg}
				t := se.resolveType(exprString(x.Args[1]))
				return trRes{code: fmt.Sprintf("func() bool { _, ok := any(%s).(%s); return ok }()", arg(0).code, tr.g.typeStr(t)), isBool: true}
			case "fresh":
				if !tr.post {
					arg(0)
					return trRes{code: "false", isBool: true} // nothing that exists at entry was allocated by the call
				}
				tr.fail("fresh(...) in a post-state is not observable at run time")
			case "allocated":
				if !tr.post && len(x.Args) == 1 {
					arg(0)
					return trRes{code: "true", isBool: true} // every value of the entry state denotes an existing object
				}
				tr.fail("allocated(...) is specification-only state")
			case "arr", "iface", "iscell", "byteseq", "ghostint", "ghostbytes", "ghostvar", "ptrof", "seq", "cat", "kvkey", "kvval", "bytes":
				tr.fail("%s(...) is specification-only state (not observable at run time)", id.Name)
			}
			if replayIntConv[id.Name] {
				return trRes{code: "govcReplayInt(" + arg(0).code + ")"}
			}
			se := &SpecEnv{fc: tr.fc, pkg: env.pkg}
			if sf := se.lookupSpecFn(id.Name); sf != nil {
				return tr.specFn(sf, x.Args, env)
			}
			if env.pkg != nil {
				if fo, ok := env.pkg.Scope().Lookup(id.Name).(*types.Func); ok {
					return tr.goCall(tr.pkgRef(env.pkg, id.Name), fo.Type().(*types.Signature), x.Args, env)
				}
			}
			tr.fail("unknown function %s", id.Name)
		}
	}
	if sel, ok := x.Fn.(*ESel); ok {
		if id, ok := sel.X.(*EIdent); ok {
			if _, isVar := env.vars[id.Name]; !isVar {
				if p := tr.lookupPkg(env, id.Name); p != nil && (env.pkg == nil || env.pkg.Scope().Lookup(id.Name) == nil) {
					if sf := tr.fc.eng.contracts.SpecFns[shortType(p.Path())+"."+sel.Name]; sf != nil {
						return tr.specFn(sf, x.Args, env)
					}
					if fo, ok := p.Scope().Lookup(sel.Name).(*types.Func); ok {
						return tr.goCall(tr.pkgRef(p, sel.Name), fo.Type().(*types.Signature), x.Args, env)
					}
					tr.fail("unknown %s.%s", id.Name, sel.Name)
				}
			}
		}
		recv := tr.tr(sel.X, env)
		if recv.typ == nil {
			tr.fail("method call %s on a value of unknown static type", exprString(x))
		}
		obj, _, _ := types.LookupFieldOrMethod(recv.typ, true, tr.g.pkg, sel.Name)
		mo, ok := obj.(*types.Func)
		if !ok {
			tr.fail("method %s is not callable from package %s", sel.Name, tr.g.pkg.Name())
		}
		return tr.goCall(recv.code+"."+sel.Name, mo.Type().(*types.Signature), x.Args, env)
	}
	tr.fail("cannot call %s", exprString(x.Fn))
	return trRes{}
}

// goCall: a pure Go function used in a spec is simply called (the real code).
func (tr *specTr) goCall(fn string, sig *types.Signature, args []Expr, env *trEnv) trRes {
	if sig.Results().Len() != 1 {
		tr.fail("%s does not have exactly one result", fn)
	}
	var as []string
	for i, a := range args {
		r := tr.tr(a, env)
		code := r.code
		if i < sig.Params().Len() && !(sig.Variadic() && i >= sig.Params().Len()-1) {
			pt := sig.Params().At(i).Type()
			if r.typ == nil || isMathInt(r.typ) {
				if b, ok := types.Unalias(pt).Underlying().(*types.Basic); ok && b.Info()&types.IsInteger != 0 {
					code = fmt.Sprintf("govcReplayConv[%s](%s)", tr.g.typeStr(pt), r.code)
				} else if r.isBool {
					code = r.code
				}
			}
		}
		as = append(as, code)
	}
	rt := sig.Results().At(0).Type()
	return trRes{code: fn + "(" + strings.Join(as, ", ") + ")", typ: rt, isBool: isBoolT(rt)}
}

// known run-time meanings of uninterpreted spec functions of trusted specs
var replayUninterp = map[string]string{
	"bytes.rdpos": "govcReplayRdpos",
	"bytes.rdlen": "govcReplayRdlen",
}

func (tr *specTr) specFn(sf *SpecFn, args []Expr, env *trEnv) trRes {
	if len(args) != len(sf.Params) {
		tr.fail("spec %s: arity", sf.Name)
	}
	if sf.Uninterp {
		if h, ok := replayUninterp[sf.Pkg+"."+sf.Name]; ok {
			var as []string
			for _, a := range args {
				as = append(as, tr.tr(a, env).code)
			}
			return trRes{code: h + "(" + strings.Join(as, ", ") + ")"}
		}
		tr.fail("uninterpreted spec function %s has no run-time meaning", sf.Name)
	}
	if sf.Rec {
		tr.fail("recursive spec function %s is not translated", sf.Name)
	}
	if env.depth > 12 {
		tr.fail("spec function expansion too deep")
	}
	se := &SpecEnv{fc: tr.fc, pkg: env.pkg}
	n := &trEnv{vars: map[string]trVar{}, pkg: env.pkg, depth: env.depth + 1}
	if p := se.lookupPkgPath(sf.Pkg); p != nil {
		n.pkg = p
	}
	for i, b := range sf.Params {
		n.vars[b.Name] = trVar{thunk: args[i], tenv: env}
	}
	r := tr.tr(sf.Body, n)
	if sf.Ret == "bool" && !r.isBool {
		r = trRes{code: tr.asBool(r), isBool: true}
	}
	return r
}

// ---------- bounded quantifiers ----------

func conjuncts(e Expr, out *[]Expr) {
	if b, ok := e.(*EBinary); ok && b.Op == "&&" {
		conjuncts(b.X, out)
		conjuncts(b.Y, out)
		return
	}
	*out = append(*out, e)
}

func exprMentions(e Expr, name string) bool {
	found := false
	var walk func(e Expr)
	walk = func(e Expr) {
		if found || e == nil {
			return
		}
		switch x := e.(type) {
		case *EIdent:
			if x.Name == name {
				found = true
			}
		case *EUnary:
			walk(x.X)
		case *EBinary:
			walk(x.X)
			walk(x.Y)
		case *ESel:
			walk(x.X)
		case *EIndex:
			walk(x.X)
			walk(x.I)
		case *ESlice:
			walk(x.X)
			if x.Lo != nil {
				walk(x.Lo)
			}
			if x.Hi != nil {
				walk(x.Hi)
			}
		case *ECall:
			walk(x.Fn)
			for _, a := range x.Args {
				walk(a)
			}
		case *EQuant:
			walk(x.Body)
		case *EOld:
			walk(x.X)
		case *ELet:
			walk(x.Val)
			walk(x.Body)
		case *EIte:
			walk(x.C)
			walk(x.A)
			walk(x.B)
		}
	}
	walk(e)
	return found
}

func (tr *specTr) quant(x *EQuant, env *trEnv) trRes {
	var guards []Expr
	if x.Forall {
		b := x.Body
		for {
			imp, ok := b.(*EBinary)
			if !ok || imp.Op != "==>" {
				break
			}
			conjuncts(imp.X, &guards)
			b = imp.Y
		}
	} else {
		conjuncts(x.Body, &guards)
	}
	n := env.child()
	var open, closeS strings.Builder
	for vi, v := range x.Vars {
		if !replayIntConv[v.Type] {
			tr.fail("quantifier over %s is not executable", v.Type)
		}
		later := map[string]bool{}
		for _, w := range x.Vars[vi:] {
			later[w.Name] = true
		}
		free := func(e Expr) bool {
			for w := range later {
				if exprMentions(e, w) {
					return false
				}
			}
			return true
		}
		isV := func(e Expr) bool {
			id, ok := e.(*EIdent)
			return ok && id.Name == v.Name
		}
		lo, hi := "", ""
		for _, g := range guards {
			b, ok := g.(*EBinary)
			if !ok {
				continue
			}
			switch {
			case isV(b.Y) && free(b.X) && (b.Op == "<=" || b.Op == "<") && lo == "": // E <= v, E < v
				lo = fmt.Sprintf("govcReplayBound(%s, %v)", tr.tr(b.X, n).code, b.Op == "<")
			case isV(b.X) && free(b.Y) && (b.Op == ">=" || b.Op == ">") && lo == "": // v >= E, v > E
				lo = fmt.Sprintf("govcReplayBound(%s, %v)", tr.tr(b.Y, n).code, b.Op == ">")
			case isV(b.X) && free(b.Y) && (b.Op == "<" || b.Op == "<=") && hi == "": // v < E, v <= E
				hi = fmt.Sprintf("govcReplayBound(%s, %v)", tr.tr(b.Y, n).code, b.Op == "<=")
			case isV(b.Y) && free(b.X) && (b.Op == ">" || b.Op == ">=") && hi == "": // E > v, E >= v
				hi = fmt.Sprintf("govcReplayBound(%s, %v)", tr.tr(b.X, n).code, b.Op == ">=")
			}
		}
		if lo == "" || hi == "" {
			tr.fail("quantified variable %s has no integer bounds in the guard (not executable): %s", v.Name, exprString(x))
		}
		name := tr.fresh("q")
		k := name + "k"
		fmt.Fprintf(&open, "for %s, %shi := govcReplayRange(%s, %s); %s < %shi; %s++ { %s := big.NewInt(%s); _ = %s; ", k, k, lo, hi, k, k, k, name, k, name)
		closeS.WriteString("}; ")
		n.vars[v.Name] = trVar{code: name}
	}
	body := tr.asBool(tr.tr(x.Body, n))
	if x.Forall {
		return trRes{code: fmt.Sprintf("func() bool { %sif !(%s) { return false }; %sreturn true }()", open.String(), body, closeS.String()), isBool: true}
	}
	return trRes{code: fmt.Sprintf("func() bool { %sif %s { return true }; %sreturn false }()", open.String(), body, closeS.String()), isBool: true}
}
