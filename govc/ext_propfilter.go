package main

import (
	"fmt"
	"strings"
)

// ext_propfilter.go — per-property clause selection for `check Cxx` (added for C01/C02).
//
// Several properties put clauses on the same function (one contract per function). A clause may carry its own property tag
// (`ensures [label] @C02 E`, `loop 0 invariant [label] @C02 E`, `hint ... [label] @C02 E`). When `check Cxx` verifies a function,
// the clauses OF THAT FUNCTION that are tagged exclusively with other properties are left out: neither proved nor assumed in
// that run (they are proved by the check of their own property, which verifies the same function with them switched on).
// Leaving out an ensures / invariant / hint of the function under verification only removes assumptions from its own proof,
// so no obligation can pass that would otherwise fail. Contracts of CALLEES are never filtered: a caller may rely on every
// postcondition of a callee, whichever property's check proves it. Untagged clauses belong to every property of the function.
// Outside `check` (development runs with -func / -prop) nothing is filtered.
//
// The filter can only REMOVE assumptions from a run. If a clause of the checked property needs a clause that was left out (say a
// C02 invariant that rests on a C01 invariant), its obligation fails in that run - loudly, never silently: give the needed clause both
// tags (`@C01,C02`) or leave it untagged. Every clause left out is listed in the evidence of the run (assumptions:
// "clause left out of this run ...").

var clauseFilterProp string

func clauseActive(cl Clause) bool {
	if clauseFilterProp == "" || len(cl.Props) == 0 {
		return true
	}
	for _, p := range cl.Props {
		if p == clauseFilterProp {
			return true
		}
	}
	return false
}

func activeClauses(cs []Clause) []Clause {
	if clauseFilterProp == "" {
		return cs
	}
	var out []Clause
	for _, c := range cs {
		if clauseActive(c) {
			out = append(out, c)
		}
	}
	return out
}

// preProvedByOtherCheck: a `requires [label] @Cxx E` of a callee is proved at a call site by the check of Cxx, provided the calling
// function (the root under verification) is itself verified by that check (it carries the property); in the run of another property the
// obligation is left out (and the callee, verified in that run, does not assume E either). If the caller does not carry the property,
// no run would prove it, so the obligation stays.
func preProvedByOtherCheck(cl Clause, fc *FnCtx) bool {
	if clauseActive(cl) {
		return false
	}
	spec := fc.eng.specFor(fc.root)
	if spec == nil {
		return false
	}
	for _, p := range cl.Props {
		found := false
		for _, q := range spec.Props {
			if p == q {
				found = true
			}
		}
		if !found {
			return false
		}
	}
	return true
}

// noteLeftOutClauses records, in the assumption list of the run (-> evidence), every clause of the verified function that the
// property filter left out.
func noteLeftOutClauses(fc *FnCtx, spec *FuncSpec) {
	if spec == nil || clauseFilterProp == "" {
		return
	}
	note := func(kind string, cl Clause) {
		if clauseActive(cl) {
			return
		}
		fc.assumes["clause left out of this run (check "+clauseFilterProp+"): "+spec.Key+" "+kind+" ["+cl.Label+"] belongs to "+strings.Join(cl.Props, ",")+" and is proved by that check"] = true
	}
	for _, cl := range spec.Requires {
		note("requires", cl)
	}
	for _, cl := range spec.Ensures {
		note("ensures", cl)
	}
	for n, cs := range spec.LoopInv {
		for _, cl := range cs {
			note(fmt.Sprintf("loop %d invariant", n), cl)
		}
	}
	for _, h := range spec.Hints {
		note("hint "+h.Where, h.Clause)
	}
}
