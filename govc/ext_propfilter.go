package main

// ext_propfilter.go — per-property clause selection for `check Cxx` (added for C01/C02).
//
// Several properties put clauses on the same function (one contract per function). A clause may carry its own property tag
// (`ensures [label] @C02 E`, `loop 0 invariant [label] @C02 E`, `hint ... [label] @C02 E`). When `check Cxx` verifies a function,
// the clauses OF THAT FUNCTION that are tagged exclusively with other properties are left out: neither proved nor assumed in
// that run (they are proved by the check of their own property, which verifies the same function with them switched on).
// Leaving out an ensures / invariant / hint of the function under verification only removes assumptions from its own proof,
// so no obligation can pass that would otherwise fail. Contracts of CALLEES are never filtered: a caller may rely on every
// postcondition of a callee, whichever property's check proves it. Untagged clauses belong to every property of the function.
// Outside `check` (development runs with -func / -prop) nothing is filtered.

var clauseFilterProp string

func clauseActive(cl Clause) bool {
	if clauseFilterProp == "" || len(cl.Props) == 0 {
		return true
	}
	for _, p := range cl.Props {
		if p == clauseFilterProp {
			return true
		}
	}
	return false
}

func activeClauses(cs []Clause) []Clause {
	if clauseFilterProp == "" {
		return cs
	}
	var out []Clause
	for _, c := range cs {
		if clauseActive(c) {
			out = append(out, c)
		}
	}
	return out
}

// preProvedByOtherCheck: a `requires [label] @Cxx E` of a callee is proved at a call site by the check of Cxx, provided the calling
// function (the root under verification) is itself verified by that check (it carries the property); in the run of another property the
// obligation is left out (and the callee, verified in that run, does not assume E either). If the caller does not carry the property,
// no run would prove it, so the obligation stays.
func preProvedByOtherCheck(cl Clause, fc *FnCtx) bool {
	if clauseActive(cl) {
		return false
	}
	spec := fc.eng.specFor(fc.root)
	if spec == nil {
		return false
	}
	for _, p := range cl.Props {
		found := false
		for _, q := range spec.Props {
			if p == q {
				found = true
			}
		}
		if !found {
			return false
		}
	}
	return true
}
