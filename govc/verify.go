package main

import (
	"fmt"
	"os"
	"go/types"
	"sort"
	"strings"

	"golang.org/x/tools/go/ssa"
)

func (eng *Engine) newFnCtx(fn *ssa.Function) *FnCtx {
	return &FnCtx{eng: eng, root: fn, tc: newTypeCtx(), comps: map[string]string{}, kindN: map[string]int{},
		assumes: map[string]bool{}, globals: map[string]string{}, calleesUsed: map[string]bool{},
		ufs: map[string]string{}, loopWrites: map[string]map[string]bool{}}
}

func (fc *FnCtx) resetPass(dry bool) {
	fc.script = nil
	fc.nfresh = 0
	fc.kindN = map[string]int{}
	fc.obls = nil
	fc.dry = dry
	fc.inlineN = 0
	fc.curFrame = nil
	fc.eng.closures = map[string]*closureRec{}
	fc.registerComp("W", "Int")
}

func (fc *FnCtx) noteWrite(key string) {
	for f := fc.curFrame; f != nil; f = f.callerFrame {
		if f.curBlock == nil {
			continue
		}
		for h, li := range f.loops {
			if li.body[f.curBlock] {
				k := fmt.Sprintf("%s#%d", f.prefix, h.Index)
				m := fc.loopWrites[k]
				if m == nil {
					m = map[string]bool{}
					fc.loopWrites[k] = m
				}
				m[key] = true
			}
		}
	}
}

func (fc *FnCtx) noteWriteAll() { fc.noteWrite("*") }

// verifyFunc generates the obligations of one function under contract.
func (eng *Engine) verifyFunc(fn *ssa.Function, props []string) (fc *FnCtx, err error) {
	fc = eng.newFnCtx(fn)
	eng.rootProps = props
	defer func() {
		if r := recover(); r != nil {
			if se, ok := r.(specErr); ok {
				err = fmt.Errorf("contract-stale: %s", se.msg)
				return
			}
			panic(r)
		}
	}()
	spec := eng.specFor(fn)
	for pass := 0; pass < 2; pass++ {
		fc.resetPass(pass == 0)
		fr := fc.newFrame(fn, "", 0, true)
		st := &State{heap: map[string]string{}}
		w := fc.watermark(st)
		fc.assume("true", app(">=", w, "1"))
		var params []SV
		for _, p := range fn.Params {
			name := "p_" + p.Name()
			fc.emit(fmt.Sprintf("(declare-const %s %s)", name, fc.tc.sortOf(p.Type())))
			fc.assume("true", fc.tc.wf(name, p.Type(), w))
			params = append(params, SV{t: name, typ: p.Type()})
		}
		for _, fv := range fn.FreeVars {
			name := "fv_" + fv.Name()
			fc.emit(fmt.Sprintf("(declare-const %s %s)", name, fc.tc.sortOf(fv.Type())))
			fc.assume("true", fc.tc.wf(name, fv.Type(), w))
			fc.assume("true", not(eq(name, nilPtr)))
			// a free variable is the address of the captured variable's own cell (go/ssa: an Alloc), never an element or field
			fc.assume("true", "((_ is Base) "+name+")")
			fr.bindings = append(fr.bindings, SV{t: name, typ: fv.Type()})
		}
		fr.params = params
		fr.entry = st.clone()
		names := paramNames(spec, fn.Signature)
		for i, p := range params {
			if i < len(names) {
				fr.oldVars[names[i]] = p
			}
		}
		if spec != nil {
			env := fr.specEnv(st, st)
			for _, cl := range spec.Requires {
				if !clauseActive(cl) { // ext_propfilter.go: a precondition of another property is neither assumed here nor proved at the call sites in this run
					continue
				}
				t, e := env.evalBool(cl.E)
				if e != nil {
					eng.stale(spec, cl, e)
					continue
				}
				fc.assume("true", t)
			}
			for _, cl := range spec.PanicsWhen {
				t, e := env.evalBool(cl.E)
				if e != nil {
					eng.stale(spec, cl, e)
					continue
				}
				fr.panicsWhenOld = append(fr.panicsWhenOld, fc.define("pw", "Bool", t))
			}
			fr.evalNoPanicWhen(spec, env) // ext_nopanic.go
		}
		if os.Getenv("GOVC_NOFRAME") == "" {
			fr.computeFrame(st)
		}
		// trusted axioms (facts about dependencies' globals, e.g. io.EOF != nil) hold in the entry state
		for _, ax := range eng.contracts.Axioms {
			if !axiomRelevant(ax, fn) || !axiomInScope(ax, props) || !fc.axiomWhen(ax, fn, pass) { // axiomInScope: ext_lemma_axioms.go; axiomWhen: ext_kviter.go
				continue
			}
			aenv := &SpecEnv{fc: fc, vars: map[string]SV{}, cur: st, old: st, pkg: eng.pkgOfSpec(&FuncSpec{Pkg: ax.Pkg})}
			t, e := aenv.evalBool(ax.E)
			if e != nil {
				eng.staleErrs = append(eng.staleErrs, fmt.Sprintf("contract-stale: axiom %q (%s): %v", ax.Text, ax.Src, e))
				continue
			}
			fc.assumes["axiom: "+ax.Text+" ("+ax.Src+")"] = true
			fc.assume("true", t)
		}
		eng.extFuncUses(fc, fr.specEnv(st, st), spec) // ext_induct.go: closures of the lemmas the contract `uses`
		if spec != nil {
			// auxiliary variables start at their declared initial values
			env := fr.specEnv(st, st)
			for _, gv := range spec.Ghosts {
				v := env.evalSafe(gv.Init.E)
				if v == nil {
					eng.stale(spec, gv.Init, fmt.Errorf("cannot evaluate initial value of ghost %s", gv.Name))
					continue
				}
				fc.setComp(st, "G|v|"+gv.Name, "Int", v.t)
			}
			for _, u := range spec.GhostUpds {
				u.Hits = 0
			}
			fr.entry = st.clone()
		}
		if spec != nil && spec.Lockset != "" {
			eng.checkLockset(fc, fr, fn, spec)
		}
		fc.cover("entry", "true")
		fr.walk(st, params, "true")
		if spec != nil && pass == 1 {
			for _, u := range spec.GhostUpds {
				if u.Hits != 1 {
					eng.stale(spec, u.E, fmt.Errorf("ghost update anchor %q matched %d program points (need exactly 1)", u.Anchor, u.Hits))
				}
			}
		}
		if spec != nil && pass == 1 {
			fr.checkLineHintAnchors()
		}
		noteLeftOutClauses(fc, spec) // ext_propfilter.go: the evidence lists every clause that `check Cxx` left out
		if spec != nil {
			for i, h := range spec.Hints {
				if e := fr.hintErr[i]; e != nil && !fr.hintOK[i] && clauseActive(h.Clause) {
					eng.stale(spec, h.Clause, e)
				}
			}
		}
	}
	return fc, nil
}

// preamble renders all declarations that must precede the script.
func (fc *FnCtx) preamble() string {
	var b strings.Builder
	b.WriteString(smtPrelude)
	for _, d := range fc.tc.decls {
		b.WriteString(d + "\n")
	}
	keys := append([]string{}, fc.compList...)
	sort.Strings(keys)
	for _, k := range keys {
		fmt.Fprintf(&b, "(declare-const %s %s)\n", compInit(k), fc.comps[k])
	}
	// all declarations first (an axiom of one uninterpreted function may mention another one, or a string constant)
	for _, u := range fc.ufList {
		fmt.Fprintf(&b, "(declare-fun %s %s)\n", u, fc.ufs[u])
	}
	for _, d := range fc.tc.extraDecls {
		b.WriteString(d + "\n")
	}
	for _, u := range fc.ufList {
		if ax := fc.ufAxioms[u]; ax != "" {
			b.WriteString(ax + "\n")
		}
		if u == "kvkey" || u == "kvval" {
			// T-KV: ids of byte strings are >= 1 (0 is "no entry")
			fmt.Fprintf(&b, "(assert (forall ((b (Array Int Int)) (o Int) (n Int)) (! (>= (%s b o n) 1) :pattern ((%s b o n)))))\n", u, u)
		}
	}
	b.WriteString(fc.kvIdAxiom()) // ext_kviter.go: one numbering of byte strings for keys and values
	if d := fc.tc.strDistinct(); d != "" {
		b.WriteString(d + "\n")
	}
	b.WriteString(fc.algebraAxioms()) // ext_bytesalgebra.go: only when blen/sub/strseq are used
	return b.String()
}

// lemma obligations: each lemma is one closed query.
func (eng *Engine) lemmaCtx(l *Lemma) (fc *FnCtx, err error) {
	fc = eng.newFnCtx(nil)
	defer func() {
		if r := recover(); r != nil {
			if se, ok := r.(specErr); ok {
				err = fmt.Errorf("contract-stale: lemma %s: %s", l.Name, se.msg)
				return
			}
			panic(r)
		}
	}()
	fc.resetPass(false)
	st := &State{heap: map[string]string{}}
	env := &SpecEnv{fc: fc, vars: map[string]SV{}, cur: st, old: st}
	env.pkg = eng.pkgOfSpec(&FuncSpec{Pkg: l.Pkg})
	for _, b := range l.Params {
		t := env.resolveType(b.Type)
		name := "l_" + b.Name
		fc.emit(fmt.Sprintf("(declare-const %s %s)", name, fc.tc.sortOf(t)))
		if !isMathInt(t) {
			fc.assume("true", fc.tc.wf(name, t, ""))
		}
		env.vars[b.Name] = SV{t: name, typ: t}
	}
	if e := eng.extLemmaBefore(fc, env, l); e != nil { // ext_induct.go: `uses` closures and the induction hypothesis
		return nil, fmt.Errorf("contract-stale: lemma %s: %v", l.Name, e)
	}
	for _, cl := range l.Requires {
		t, e := env.evalBool(cl.E)
		if e != nil {
			return nil, fmt.Errorf("contract-stale: lemma %s: %v", l.Name, e)
		}
		fc.assume("true", t)
	}
	if e := eng.assumeLemmaAxioms(fc, st, l); e != nil { // ext_lemma_axioms.go
		return nil, fmt.Errorf("contract-stale: lemma %s: axiom: %v", l.Name, e)
	}
	eng.extLemmaAfterRequires(fc, env, l) // ext_induct.go
	cov := &Obligation{Name: "lemma:" + l.Name + "#cover", Kind: "cover", Func: "lemma:" + l.Name, Guard: "true", Cond: "false", Cover: true}
	fc.script = append(fc.script, Item{ob: cov})
	fc.obls = append(fc.obls, cov)
	for i, cl := range l.Ensures {
		t, e := env.evalBool(cl.E)
		if e != nil {
			return nil, fmt.Errorf("contract-stale: lemma %s: %v", l.Name, e)
		}
		label := cl.Label
		if label == "" {
			label = fmt.Sprint(i)
		}
		ob := &Obligation{Name: fmt.Sprintf("lemma:%s#%s", l.Name, label), Kind: "lemma", Func: "lemma:" + l.Name, Guard: "true", Cond: t, Text: cl.Text, Props: l.Props, Pos: l.Src}
		fc.script = append(fc.script, Item{ob: ob})
		fc.obls = append(fc.obls, ob)
	}
	return fc, nil
}

func funcKeyOrLemma(fc *FnCtx) string {
	if fc.root == nil {
		return "lemma"
	}
	return funcKey(fc.root)
}

var _ = types.Typ

// axiomRelevant: axioms of trusted .spec files are assumed everywhere (as before); an axiom written in a repository
// contract file (about that package's spec functions, e.g. the storage key space) is assumed only for functions of that
// package and of packages importing it directly. Dropping an assumption is always sound; it keeps unrelated VCs small.
func axiomRelevant(ax Clause, fn *ssa.Function) bool {
	if strings.HasSuffix(strings.SplitN(ax.Src, ":", 2)[0], ".spec") || fn == nil || fn.Pkg == nil {
		return true
	}
	if shortType(fn.Pkg.Pkg.Path()) == ax.Pkg {
		return true
	}
	for _, imp := range fn.Pkg.Pkg.Imports() {
		if shortType(imp.Path()) == ax.Pkg {
			return true
		}
	}
	return false
}
