package main

import (
	"fmt"
	"go/types"
	"strings"
)

// T-BYTES: the algebra of byte strings and Go strings (added for C32, DESIGN §2.5).
//
// seq(x) (bseq(block, offset, length)) is the byte string held by x as an abstract value, cat(a, b) (bcat) the concatenation.
// Three more spec builtins talk about such values:
//
//	blen(c)          the length of the byte string c
//	sub(c, lo, hi)   the substring c[lo:hi]                                   (bsub)
//	strseq(s)        the byte string of the Go string s  ([]byte(s) holds it: the engine adds seq([]byte(s)) == strseq(s) at
//	                 every string -> []byte conversion of a function that uses the algebra)
//	bytestr(b)       the Go string string(b) of a byte slice b (no axioms: the term the code conversion produces)
//
// A function or lemma whose specifications (or callee contracts) use one of the three gets the axioms below in its preamble:
// the laws of finite sequences under the intended reading (bseq = the window's content, an injective code). They are listed
// as a trusted model in the evidence. Every quantified axiom has a pattern of uninterpreted symbols only; arithmetic occurs
// only on the right-hand sides.
//
//	blen(c) >= 0;  blen(seq(b,o,n)) == n;  blen(cat(x,y)) == blen(x) + blen(y)
//	sub(seq(b,o,n), lo, hi) == seq(b, o+lo, hi-lo)                    for 0 <= lo <= hi <= n
//	sub(cat(x,y), lo, hi) == sub(x, lo, hi)                           for 0 <= lo <= hi <= blen(x)
//	sub(cat(x,y), lo, hi) == sub(y, lo-blen(x), hi-blen(x))           for blen(x) <= lo <= hi <= blen(x)+blen(y)
//	sub(x, 0, blen(x)) == x
//	cat(sub(x,lo,k), sub(x,k,hi)) == sub(x,lo,hi)                     for 0 <= lo <= k <= hi <= blen(x)
//	cat(cat(x,y),z) == cat(x,cat(y,z))
//
// and for Go strings (strlen, strcat, strsub of the prelude):
//
//	strlen(a+b) == strlen(a)+strlen(b);  (a+b)[0:len(a)] == a;  (a+b)[len(a):len(a)+len(b)] == b
//	(a+b)+c == a+(b+c);  s[0:len(s)] == s;  s[lo:k] + s[k:hi] == s[lo:hi]                  for 0 <= lo <= k <= hi <= len(s)
//	strlen(s[lo:hi]) == hi-lo                                          for 0 <= lo <= hi <= len(s)
const algebraNote = "trusted model: T-BYTES algebra of byte strings and Go strings (blen/sub/cat/seq, strlen/strcat/strsub: the laws of finite sequences; ext_bytesalgebra.go)"

func (fc *FnCtx) algebraOn() bool {
	for _, u := range []string{"blen", "bsub", "strseq", "stralg"} {
		if _, ok := fc.ufs[u]; ok {
			return true
		}
	}
	return false
}

// evalAlgebraBuiltin handles blen / sub / strseq in specifications.
func (e *SpecEnv) evalAlgebraBuiltin(name string, args []Expr) (SV, bool) {
	fc := e.fc
	switch name {
	case "blen":
		if len(args) != 1 {
			e.fail("blen(code)")
		}
		c := e.eval(args[0])
		fc.eng.declareUF(fc, "blen", []string{"Int"}, "Int")
		fc.assumes[algebraNote] = true
		return SV{t: app("blen", c.t), typ: mathInt}, true
	case "sub":
		if len(args) != 3 {
			e.fail("sub(code, lo, hi)")
		}
		c, lo, hi := e.eval(args[0]), e.eval(args[1]), e.eval(args[2])
		fc.eng.declareUF(fc, "bsub", []string{"Int", "Int", "Int"}, "Int")
		fc.assumes[algebraNote] = true
		return SV{t: app("bsub", c.t, lo.t, hi.t), typ: mathInt}, true
	case "noaxioms":
		// noaxioms(): true; in a lemma's `requires` it keeps the property-scoped axioms out of that lemma (ext_lemma_axioms.go),
		// so that a purely arithmetic lemma stays in a decidable fragment (a counter-model is then found at once)
		noLemmaAxioms[fc] = true
		return SV{t: "true", typ: boolT}, true
	case "stralgebra":
		// stralgebra(): true; switches the algebra axioms on for the function / lemma whose specification (or a scoped axiom,
		// e.g. `axiom @C33 stralgebra()`) mentions it -- for specifications that use only Go strings (a + b, s[lo:hi], len)
		fc.eng.declareUF(fc, "stralg", nil, "Bool")
		fc.assumes[algebraNote] = true
		return SV{t: "true", typ: boolT}, true
	case "bytestr":
		// bytestr(b): the Go string string(b) of a byte slice (the term the engine uses for the conversion in code)
		if len(args) != 1 {
			e.fail("bytestr(slice)")
		}
		v := e.eval(args[0])
		sl, ok := types.Unalias(v.typ).Underlying().(*types.Slice)
		if !ok {
			e.fail("bytestr of non-slice")
		}
		k, s := fc.bKey(sl.Elem())
		return SV{t: app("str_of_bytes", app("select", fc.comp(e.cur, k, s), sarr(v.t)), soff(v.t), slen(v.t)), typ: types.Typ[types.String]}, true
	case "strseq":
		if len(args) != 1 {
			e.fail("strseq(string)")
		}
		s := e.eval(args[0])
		if fc.tc.sortOfSV(s) != "Str" {
			e.fail("strseq of non-string")
		}
		fc.eng.declareUF(fc, "strseq", []string{"Str"}, "Int")
		fc.assumes[algebraNote] = true
		return SV{t: app("strseq", s.t), typ: mathInt}, true
	}
	return SV{}, false
}

// strToBytesFact: at `[]byte(s)` (block blk, length n) in a function that uses the algebra: the new slice holds strseq(s).
func (fc *FnCtx) strToBytesFact(blk, n, str string) {
	if !fc.algebraOn() {
		return
	}
	fc.eng.declareUF(fc, "strseq", []string{"Str"}, "Int")
	fc.eng.declareUF(fc, "bseq", []string{"(Array Int Int)", "Int", "Int"}, "Int")
	fc.assume("true", eq(app("bseq", blk, "0", n), app("strseq", str)))
}

// bytesToStrFact: at `string(b)` in a function that uses the algebra: the string's byte string is seq(b).
func (fc *FnCtx) bytesToStrFact(blk, off, n, str string) {
	if !fc.algebraOn() {
		return
	}
	fc.eng.declareUF(fc, "strseq", []string{"Str"}, "Int")
	fc.eng.declareUF(fc, "bseq", []string{"(Array Int Int)", "Int", "Int"}, "Int")
	fc.assume("true", eq(app("strseq", str), app("bseq", blk, off, n)))
}

// algebraAxioms renders the axioms (after all declarations) when the algebra is in use.
func (fc *FnCtx) algebraAxioms() string {
	if !fc.algebraOn() {
		return ""
	}
	var b strings.Builder
	decl := func(name, sig string) {
		if _, ok := fc.ufs[name]; !ok {
			fmt.Fprintf(&b, "(declare-fun %s %s)\n", name, sig)
		}
	}
	decl("bseq", "((Array Int Int) Int Int) Int")
	decl("bcat", "(Int Int) Int")
	decl("blen", "(Int) Int")
	decl("bsub", "(Int Int Int) Int")
	decl("strseq", "(Str) Int")
	ax := func(vars, body, pats string) {
		fmt.Fprintf(&b, "(assert (forall (%s) (! %s %s)))\n", vars, body, pats)
	}
	ax("(c Int)", "(>= (blen c) 0)", ":pattern ((blen c))")
	ax("(b (Array Int Int)) (o Int) (n Int)", "(=> (>= n 0) (= (blen (bseq b o n)) n))", ":pattern ((bseq b o n))")
	ax("(x Int) (y Int)", "(= (blen (bcat x y)) (+ (blen x) (blen y)))", ":pattern ((bcat x y))")
	ax("(b (Array Int Int)) (o Int) (n Int) (lo Int) (hi Int)",
		"(=> (and (<= 0 lo) (<= lo hi) (<= hi n)) (= (bsub (bseq b o n) lo hi) (bseq b (+ o lo) (- hi lo))))", ":pattern ((bsub (bseq b o n) lo hi))")
	ax("(x Int) (y Int) (lo Int) (hi Int)",
		"(and (=> (and (<= 0 lo) (<= lo hi) (<= hi (blen x))) (= (bsub (bcat x y) lo hi) (bsub x lo hi)))"+
			" (=> (and (<= (blen x) lo) (<= lo hi) (<= hi (+ (blen x) (blen y)))) (= (bsub (bcat x y) lo hi) (bsub y (- lo (blen x)) (- hi (blen x))))))",
		":pattern ((bsub (bcat x y) lo hi))")
	ax("(x Int) (hi Int)", "(=> (= hi (blen x)) (= (bsub x 0 hi) x))", ":pattern ((bsub x 0 hi))")
	ax("(x Int) (lo Int) (k Int) (hi Int)",
		"(=> (and (<= 0 lo) (<= lo k) (<= k hi) (<= hi (blen x))) (= (bcat (bsub x lo k) (bsub x k hi)) (bsub x lo hi)))", ":pattern ((bsub x lo k) (bsub x k hi))")
	ax("(x Int) (y Int) (z Int)", "(= (bcat (bcat x y) z) (bcat x (bcat y z)))", ":pattern ((bcat (bcat x y) z))")
	ax("(s Str)", "(= (blen (strseq s)) (strlen s))", ":pattern ((strseq s))")
	// Go strings
	ax("(a Str) (b Str)", "(and (= (strlen (strcat a b)) (+ (strlen a) (strlen b))) (= (strsub (strcat a b) 0 (strlen a)) a)"+
		" (= (strsub (strcat a b) (strlen a) (+ (strlen a) (strlen b))) b))", ":pattern ((strcat a b))")
	ax("(a Str) (b Str) (c Str)", "(= (strcat (strcat a b) c) (strcat a (strcat b c)))", ":pattern ((strcat (strcat a b) c))")
	ax("(s Str) (hi Int)", "(=> (= hi (strlen s)) (= (strsub s 0 hi) s))", ":pattern ((strsub s 0 hi))")
	ax("(s Str) (lo Int) (hi Int)", "(=> (and (<= 0 lo) (<= lo hi) (<= hi (strlen s))) (= (strlen (strsub s lo hi)) (- hi lo)))", ":pattern ((strsub s lo hi))")
	ax("(s Str) (lo Int) (k Int) (hi Int)",
		"(=> (and (<= 0 lo) (<= lo k) (<= k hi) (<= hi (strlen s))) (= (strcat (strsub s lo k) (strsub s k hi)) (strsub s lo hi)))", ":pattern ((strsub s lo k) (strsub s k hi))")
	return b.String()
}

var _ = types.Typ
