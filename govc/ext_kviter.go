package main

// Engine support for the ITERATOR part of the T-KV model (trusted/badger.spec, "Iterators"). Four small, additive pieces:
//
//  1. transparent external structs: badger.IteratorOptions is a plain option record whose exported fields the client
//     assigns (`opts.Prefix = ...; opts.Reverse = true`). As an opaque cell those field stores were invisible to the value
//     later passed to NewIterator (the load of the whole cell did not see them). Types listed in transparentExternal are
//     decomposed into their fields exactly like repository structs.
//  2. strkey(s): spec builtin, the key/value id of the byte string of a Go string (uninterpreted Str -> Int, >= 1), and the
//     ground fact kvkey([]byte(s)) == strkey(s) at every string -> []byte conversion in functions whose specs mention kvkey.
//  3. one numbering of byte strings: kvkey(b, o, n) == kvval(b, o, n) ("id == content" for both, badger.spec header); needed
//     where a stored VALUE is used as a KEY (SNAPTOPO -> TOPOLOGY -> SNAPSHOT indirections). Instantiated per kvkey term.
//  4. conditional axioms: `axiom [when-NAME] E` is assumed only in functions whose VC uses the uninterpreted spec function
//     NAME (after the dry pass) or whose package references the package-level variable NAME. Dropping an axiom is always
//     sound; it keeps the key-order axioms and the DefaultIteratorOptions facts out of every other VC.

import (
	"fmt"
	"go/ast"
	"go/types"
	"strings"

	"golang.org/x/tools/go/ssa"
)

var transparentExternal = map[string]bool{
	"github.com/dgraph-io/badger/v4.IteratorOptions": true,
	"github.com/dgraph-io/badger/v4.Entry":           true, // NewEntry(key, val).WithTTL(d) -> SetEntry(e): Key/Value are read off the record
}

func isTransparentExternal(t types.Type) bool {
	n, ok := types.Unalias(t).(*types.Named)
	if !ok || n.Obj().Pkg() == nil {
		return false
	}
	return transparentExternal[n.Obj().Pkg().Path()+"."+n.Obj().Name()]
}

// declareStrKey declares strkey with its positivity axiom (ids are >= 1, 0 is "absent").
func (fc *FnCtx) declareStrKey() {
	fc.eng.declareUF(fc, "strkey", []string{"Str"}, "Int")
	if fc.ufAxioms == nil {
		fc.ufAxioms = map[string]string{}
	}
	fc.ufAxioms["strkey"] = "(assert (forall ((s Str)) (! (>= (strkey s) 1) :pattern ((strkey s)))))"
}

// evalStrKey: spec builtin strkey(s).
func (e *SpecEnv) evalStrKey(x *ECall) SV {
	if len(x.Args) != 1 {
		e.fail("strkey(string)")
	}
	v := e.eval(x.Args[0])
	if e.fc.tc.sortOfSV(v) != "Str" {
		e.fail("strkey of non-string %s", exprString(x.Args[0]))
	}
	e.fc.declareStrKey()
	return SV{t: app("strkey", v.t), typ: mathInt}
}

// kvStringBytes: after blk := []byte(str) (n == len(str)) the new block holds the byte string of str.
func (fr *Frame) kvStringBytes(g, blk, n, str string) {
	fc := fr.fc
	if _, used := fc.ufs["kvkey"]; !used {
		return
	}
	fc.declareStrKey()
	fc.assume(g, eq(app("kvkey", blk, "0", n), app("strkey", str)))
}

// kvIdAxiom: keys and values are numbered by ONE injective numbering of byte strings.
func (fc *FnCtx) kvIdAxiom() string {
	_, k := fc.ufs["kvkey"]
	_, v := fc.ufs["kvval"]
	if !k || !v {
		return ""
	}
	return "(assert (forall ((b (Array Int Int)) (o Int) (n Int)) (! (= (kvkey b o n) (kvval b o n)) :pattern ((kvkey b o n)))))\n"
}

// axiomWhen implements `axiom [when-NAME] E` (see the file comment). pass 0 is the dry pass.
func (fc *FnCtx) axiomWhen(ax Clause, fn *ssa.Function, pass int) bool {
	if !strings.HasPrefix(ax.Label, "when-") {
		return true
	}
	name := strings.TrimPrefix(ax.Label, "when-")
	if fn != nil && fn.Pkg != nil && fc.eng.pkgRefsGlobal(fn.Pkg, name) {
		return true
	}
	if pass == 0 {
		return false
	}
	for u := range fc.ufs {
		if u == name || strings.HasSuffix(u, "_"+name) {
			return true
		}
	}
	return false
}

var pkgRefsGlobalCache = map[string]bool{}

// pkgRefsGlobal: some function of package p mentions a package-level variable called name (of any package).
func (eng *Engine) pkgRefsGlobal(p *ssa.Package, name string) bool {
	key := p.Pkg.Path() + "#" + name
	if r, ok := pkgRefsGlobalCache[key]; ok {
		return r
	}
	found := false
	for _, fn := range eng.funcByKey {
		q := fn.Pkg
		if q == nil && fn.Parent() != nil {
			q = fn.Parent().Pkg
		}
		if q != p || found {
			continue
		}
		for _, b := range fn.Blocks {
			for _, in := range b.Instrs {
				for _, op := range in.Operands(nil) {
					if g, ok := (*op).(*ssa.Global); ok && g.Name() == name {
						found = true
					}
				}
			}
		}
	}
	pkgRefsGlobalCache[key] = found
	return found
}

var _ = fmt.Sprintf

// addrFromCall: the address expression v is (syntactically) derived from the result of a call -- the only way an address
// read "straight from the entry heap" can belong to an object that did not exist at entry (see unop, token.MUL).
func addrFromCall(v ssa.Value, depth int) bool {
	if depth > 12 {
		return true
	}
	switch x := v.(type) {
	case *ssa.Call:
		return true
	case *ssa.Extract:
		return addrFromCall(x.Tuple, depth+1)
	case *ssa.FieldAddr:
		return addrFromCall(x.X, depth+1)
	case *ssa.IndexAddr:
		return addrFromCall(x.X, depth+1)
	case *ssa.Slice:
		return addrFromCall(x.X, depth+1)
	case *ssa.ChangeType:
		return addrFromCall(x.X, depth+1)
	case *ssa.UnOp:
		return addrFromCall(x.X, depth+1)
	case *ssa.Phi:
		for _, e := range x.Edges {
			if addrFromCall(e, depth+1) {
				return true
			}
		}
	}
	return false
}

// evalKvSub: spec builtin kvsub(id, lo, hi): the id of bytes [lo, hi) of the byte string with id `id` (uninterpreted).
// Clients axiomatise it on their key constructors (storage: the hash part of a CACHETRANSACTIONQUEUE key).
func (e *SpecEnv) evalKvSub(x *ECall) SV {
	if len(x.Args) != 3 {
		e.fail("kvsub(id, lo, hi)")
	}
	a, lo, hi := e.eval(x.Args[0]), e.eval(x.Args[1]), e.eval(x.Args[2])
	e.fc.eng.declareUF(e.fc, "kvsub", []string{"Int", "Int", "Int"}, "Int")
	return SV{t: app("kvsub", a.t, lo.t, hi.t), typ: mathInt}
}

// kvSubSliceFact: after t := s[lo:hi] on a byte slice, in functions whose specs mention kvsub: the id of the new window is
// kvsub(id of the old window, lo, hi) -- a ground instance of "ids are functions of the content" at the slicing site.
func (fr *Frame) kvSubSliceFact(st *State, g string, s SV, et types.Type, lo, hi string) {
	fc := fr.fc
	if _, used := fc.ufs["kvsub"]; !used || !isByteT(et) {
		return
	}
	fc.eng.declareUF(fc, "kvkey", []string{"(Array Int Int)", "Int", "Int"}, "Int")
	fc.eng.declareUF(fc, "kvval", []string{"(Array Int Int)", "Int", "Int"}, "Int")
	k, srt := fc.bKey(et)
	blk := app("select", fc.comp(st, k, srt), sarr(s.t))
	fc.assume(g, eq(app("kvval", blk, plus(soff(s.t), lo), minus(hi, lo)), app("kvsub", app("kvkey", blk, soff(s.t), slen(s.t)), lo, hi)))
}

// namedHeapVars: a source variable that is captured by a closure (or whose address escapes) is a heap Alloc whose comment is
// the variable's name; go/ssa emits no "address of var" debug ref for it when it is a parameter or only assigned. Expose such
// allocations that dominate the invariant point h as locals: `name` is the variable's current value; for a captured
// PARAMETER the local is called `cur_<name>` (a plain `name` keeps meaning the parameter's entry value).
func (fr *Frame) namedHeapVars(h *ssa.BasicBlock, out map[string]func(*State) SV, addrs map[string]SV) {
	names := map[string]bool{}
	for _, p := range fr.fn.Params {
		names[p.Name()] = true
	}
	for _, b := range fr.fn.Blocks {
		for _, in := range b.Instrs {
			if d, ok := in.(*ssa.DebugRef); ok {
				if id, ok := d.Expr.(*ast.Ident); ok {
					names[id.Name] = true
				}
			}
		}
	}
	fc := fr.fc
	for _, b := range fr.fn.Blocks {
		if !b.Dominates(h) {
			continue
		}
		for _, in := range b.Instrs {
			a, ok := in.(*ssa.Alloc)
			if !ok || !a.Heap || !names[a.Comment] {
				continue
			}
			if _, dup := addrs[a.Comment]; dup {
				continue
			}
			sv, known := fr.vals[a]
			if !known {
				continue
			}
			pt, ok := a.Type().Underlying().(*types.Pointer)
			if !ok {
				continue
			}
			name := a.Comment
			for _, p := range fr.fn.Params {
				if p.Name() == name {
					name = "cur_" + name // a captured PARAMETER: `name` stays the entry value, `cur_name` is the variable's current value
				}
			}
			addrs[name] = SV{t: sv.t, typ: pt.Elem()}
			if _, dup := out[name]; !dup {
				addr := sv.t
				out[name] = func(st *State) SV { return SV{t: fc.load(st, addr, pt.Elem()), typ: pt.Elem()} }
			}
		}
	}
}

// rootMode: the contract of the function under verification carries `mode <name>`.
func (fr *Frame) rootMode(name string) bool {
	root := fr
	for root.callerFrame != nil {
		root = root.callerFrame
	}
	return root.spec != nil && root.spec.Modes[name]
}

// freeVarAddr: the cell of a captured variable of the closure this frame verifies (for `modifies v` and `&v` in its contract).
func (fr *Frame) freeVarAddr(name string) (string, types.Type, bool) {
	for i, fv := range fr.fn.FreeVars {
		if fv.Name() == name && i < len(fr.bindings) {
			if pt, ok := fv.Type().Underlying().(*types.Pointer); ok {
				return fr.bindings[i].t, pt.Elem(), true
			}
		}
	}
	return "", nil, false
}
