package main

// Syntactic lockset check, variant for a counter object guarded by ITS OWN embedded mutex (clause `lockset <field>` where
// receiver.<field> is a pointer to a struct that embeds sync.Mutex / sync.RWMutex, e.g. kernel.Node.TopoCounter):
//
//	held      the entry block calls r.<field>.Lock() (promoted from the embedded mutex) and defers r.<field>.Unlock();
//	          the function contains no other (R)Unlock call, so the mutex is held until return
//	guarded   no field of *r.<field> other than the mutex is addressed in the entry block before that Lock call (the entry
//	          block dominates every other block, so every read and write of the counter's fields happens with the mutex held)
//	confined  the function starts no goroutine and has no function literals
//
// Like lockset.go this is a dominator argument on the SSA, not a proof about schedules; each item becomes an obligation
// whose condition is the constant true/false (solver "syntactic").

import (
	"fmt"
	"go/token"
	"go/types"
	"strings"

	"golang.org/x/tools/go/ssa"
)

// embeddedMutexField: t is a pointer to a struct whose field i is an embedded sync.Mutex/RWMutex.
func embeddedMutexField(t types.Type) (int, bool) {
	p, ok := types.Unalias(t).Underlying().(*types.Pointer)
	if !ok {
		return 0, false
	}
	st, ok := types.Unalias(p.Elem()).Underlying().(*types.Struct)
	if !ok {
		return 0, false
	}
	for i := 0; i < st.NumFields(); i++ {
		f := st.Field(i)
		if !f.Embedded() {
			continue
		}
		if n, ok := types.Unalias(f.Type()).(*types.Named); ok && n.Obj().Pkg() != nil && n.Obj().Pkg().Path() == "sync" && (n.Obj().Name() == "Mutex" || n.Obj().Name() == "RWMutex") {
			return i, true
		}
	}
	return 0, false
}

// locksetIsCounter: the lockset field of the receiver is a counter object with an embedded mutex.
func locksetIsCounter(fn *ssa.Function, field string) bool {
	if len(fn.Params) == 0 {
		return false
	}
	st, ok := derefStructType(fn.Params[0].Type())
	if !ok {
		return false
	}
	for i := 0; i < st.NumFields(); i++ {
		if st.Field(i).Name() == field {
			_, ok := embeddedMutexField(st.Field(i).Type())
			return ok
		}
	}
	return false
}

func (eng *Engine) checkLocksetCounter(fc *FnCtx, fr *Frame, fn *ssa.Function, spec *FuncSpec) {
	field := strings.TrimSpace(spec.Lockset)
	recv := fn.Params[0]
	// counterPtr: v == *(&recv.field)
	counterPtr := func(v ssa.Value) bool {
		u, ok := v.(*ssa.UnOp)
		if !ok || u.Op != token.MUL {
			return false
		}
		fa, ok := u.X.(*ssa.FieldAddr)
		if !ok || fa.X != recv {
			return false
		}
		st, ok := derefStructType(recv.Type())
		return ok && fa.Field < st.NumFields() && st.Field(fa.Field).Name() == field
	}
	// mutexAddr: v == &(*(&recv.field)).<embedded mutex>
	mutexAddr := func(v ssa.Value) bool {
		fa, ok := v.(*ssa.FieldAddr)
		if !ok || !counterPtr(fa.X) {
			return false
		}
		mi, ok := embeddedMutexField(fa.X.Type())
		return ok && fa.Field == mi
	}
	name := func(c *ssa.CallCommon) string {
		if f := c.StaticCallee(); f != nil {
			return funcKey(f)
		}
		return ""
	}
	held, deferred, touchedBefore := false, false, false
	for _, in := range fn.Blocks[0].Instrs {
		switch x := in.(type) {
		case *ssa.FieldAddr:
			if counterPtr(x.X) && !mutexAddr(x) && !held {
				touchedBefore = true
			}
		case *ssa.Call:
			n := name(&x.Call)
			if (n == "(*sync.RWMutex).Lock" || n == "(*sync.Mutex).Lock") && len(x.Call.Args) == 1 && mutexAddr(x.Call.Args[0]) {
				held = true
			}
		case *ssa.Defer:
			n := name(&x.Call)
			if held && (n == "(*sync.RWMutex).Unlock" || n == "(*sync.Mutex).Unlock") && len(x.Call.Args) == 1 && mutexAddr(x.Call.Args[0]) {
				deferred = true
			}
		}
	}
	unlocks, gos := 0, 0
	for _, b := range fn.Blocks {
		for _, in := range b.Instrs {
			switch x := in.(type) {
			case *ssa.Call:
				n := name(&x.Call)
				if strings.HasSuffix(n, "Mutex).Unlock") || strings.HasSuffix(n, "Mutex).RUnlock") {
					unlocks++
				}
			case *ssa.Go:
				gos++
			}
		}
	}
	b2s := func(b bool) string {
		if b {
			return "true"
		}
		return "false"
	}
	pos := fn.Pos()
	fc.oblige(fr, "lockset", "held", "true", b2s(held && deferred && unlocks == 0), pos,
		fmt.Sprintf("entry block: %s.%s.Lock() with deferred Unlock(), no other unlock (syntactic)", recv.Name(), field), fr.props())
	fc.oblige(fr, "lockset", "guarded", "true", b2s(held && !touchedBefore), pos,
		fmt.Sprintf("no field of *%s.%s is addressed before the Lock() in the entry block: every access to the counter is under its mutex (syntactic)", recv.Name(), field), fr.props())
	fc.oblige(fr, "lockset", "confined", "true", b2s(gos == 0 && len(fn.AnonFuncs) == 0), pos, "no goroutine started, no function literal (syntactic)", fr.props())
}
