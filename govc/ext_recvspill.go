package main

import (
	"go/token"

	"golang.org/x/tools/go/ssa"
)

// isRecvValue: v denotes the receiver parameter recv of the method — either the parameter itself or a load of the cell the
// parameter was spilled to. go/ssa spills a parameter to a heap cell (`t0 = new *T (s); *t0 = s`) when a function literal
// captures it; every use is then `*t0`. The cell must be written exactly once, with the parameter, so that each load yields it.
func isRecvValue(v ssa.Value, recv *ssa.Parameter) bool {
	if v == recv {
		return true
	}
	u, ok := v.(*ssa.UnOp)
	if !ok || u.Op != token.MUL {
		return false
	}
	a, ok := u.X.(*ssa.Alloc)
	if !ok || a.Referrers() == nil {
		return false
	}
	stores := 0
	for _, r := range *a.Referrers() {
		switch x := r.(type) {
		case *ssa.Store:
			if x.Addr == a {
				if x.Val != recv {
					return false
				}
				stores++
			} else {
				return false // the address of the cell itself is stored somewhere: it escapes
			}
		case *ssa.UnOp, *ssa.DebugRef:
		case *ssa.MakeClosure:
			// captured by a function literal: the closure may only read it (checked: no store through the free variable)
			for i, b := range x.Bindings {
				if b != a {
					continue
				}
				if fn, ok := x.Fn.(*ssa.Function); ok && i < len(fn.FreeVars) {
					if fv := fn.FreeVars[i]; fv.Referrers() != nil {
						for _, fr := range *fv.Referrers() {
							if st, isStore := fr.(*ssa.Store); isStore && st.Addr == fv {
								return false
							}
						}
					}
				}
			}
		default:
			return false
		}
	}
	return stores == 1
}
