package main

import (
	"fmt"
	"go/types"
	"sort"
	"strconv"
	"strings"

	"golang.org/x/tools/go/ssa"
)

// Generation of the replay test: Go source, in the package of the function under contract, that rebuilds the model's
// inputs, calls the REAL function and decides whether the violation the solver predicts is observable.

type genCtx struct {
	pkg     *types.Package
	imports map[string]string // import path -> alias
	impList []string
}

var replayStdImports = map[string]string{"bytes": "bytes", "errors": "errors", "fmt": "fmt", "math/big": "big", "reflect": "reflect",
	"runtime/debug": "debug", "strings": "strings", "testing": "testing", "unsafe": "unsafe"}

func (g *genCtx) alias(p *types.Package) string {
	if a, ok := g.imports[p.Path()]; ok {
		return a
	}
	if a, ok := replayStdImports[p.Path()]; ok {
		return a // imported by every replay test under its own name (and used by the helpers)
	}
	a := fmt.Sprintf("govcp%d_%s", len(g.imports)+1, mangle(p.Name()))
	g.imports[p.Path()] = a
	g.impList = append(g.impList, p.Path())
	return a
}

// nameable: can the type be written in a file of package g.pkg?
func (g *genCtx) nameable(t types.Type, depth int) bool {
	if depth > 8 {
		return true
	}
	switch u := types.Unalias(t).(type) {
	case *types.Named:
		o := u.Obj()
		if o.Pkg() != nil && o.Pkg() != g.pkg && !o.Exported() {
			return false
		}
		if o.Pkg() != nil && strings.Contains(o.Pkg().Path(), "/internal/") && !strings.HasPrefix(o.Pkg().Path(), modPrefix) {
			return false
		}
		if o.Parent() != nil && o.Pkg() != nil && o.Parent() != o.Pkg().Scope() {
			return false // type declared inside a function
		}
		if ta := u.TypeArgs(); ta != nil {
			for i := 0; i < ta.Len(); i++ {
				if !g.nameable(ta.At(i), depth+1) {
					return false
				}
			}
		}
		return true
	case *types.Pointer:
		return g.nameable(u.Elem(), depth+1)
	case *types.Slice:
		return g.nameable(u.Elem(), depth+1)
	case *types.Array:
		return g.nameable(u.Elem(), depth+1)
	case *types.Map:
		return g.nameable(u.Key(), depth+1) && g.nameable(u.Elem(), depth+1)
	case *types.Chan:
		return g.nameable(u.Elem(), depth+1)
	case *types.Struct:
		for i := 0; i < u.NumFields(); i++ {
			if !g.nameable(u.Field(i).Type(), depth+1) {
				return false
			}
		}
		return true
	case *types.Signature:
		for i := 0; i < u.Params().Len(); i++ {
			if !g.nameable(u.Params().At(i).Type(), depth+1) {
				return false
			}
		}
		for i := 0; i < u.Results().Len(); i++ {
			if !g.nameable(u.Results().At(i).Type(), depth+1) {
				return false
			}
		}
		return true
	case *types.TypeParam:
		return false
	}
	return true
}

func (g *genCtx) tryTypeStr(t types.Type) (string, bool) {
	if !g.nameable(t, 0) {
		return "", false
	}
	return types.TypeString(t, func(p *types.Package) string {
		if p == g.pkg {
			return ""
		}
		return g.alias(p)
	}), true
}

func (g *genCtx) typeStr(t types.Type) string {
	s, ok := g.tryTypeStr(t)
	if !ok {
		panic(unsupportedErr{"unsupported input kind: type " + shortType(t.String()) + " cannot be named in package " + g.pkg.Name()})
	}
	return s
}

func (g *genCtx) zeroExpr(t types.Type) string {
	ts := g.typeStr(t)
	switch u := types.Unalias(t).Underlying().(type) {
	case *types.Basic:
		switch {
		case u.Info()&types.IsBoolean != 0:
			return ts + "(false)"
		case u.Info()&types.IsString != 0:
			return ts + "(\"\")"
		case u.Info()&types.IsNumeric != 0:
			return ts + "(0)"
		}
	case *types.Pointer, *types.Slice, *types.Map, *types.Chan, *types.Signature, *types.Interface:
		return "(" + ts + ")(nil)"
	case *types.Struct, *types.Array:
		if !isBigInt(t) {
			return ts + "{}"
		}
	}
	return "*new(" + ts + ")"
}

// fieldAccessible: can a file of package g.pkg name field f?
func (g *genCtx) fieldAccessible(f *types.Var) bool {
	return f.Exported() || f.Pkg() == g.pkg
}

// expr renders a reconstructed value of type t as a Go expression.
func (g *genCtx) expr(v rVal, t types.Type) string {
	if isZeroVal(v) {
		return g.zeroExpr(t)
	}
	ts := g.typeStr(t)
	switch x := v.(type) {
	case *rInt:
		return ts + "(" + x.v.String() + ")"
	case *rBig:
		return fmt.Sprintf("govcReplayBig(%q)", x.v.String())
	case *rBool:
		return ts + "(" + strconv.FormatBool(x.v) + ")"
	case *rString:
		return ts + "(" + strconv.Quote(string(x.b)) + ")"
	case *rErr:
		return "error(errors.New(\"govc replay: non-nil error\"))"
	case *rReader:
		return fmt.Sprintf("govcReplayReader(%d, %d)", x.len, x.pos)
	case *rStruct:
		u := types.Unalias(t).Underlying().(*types.Struct)
		var b strings.Builder
		fmt.Fprintf(&b, "func() %s { var v %s; ", ts, ts)
		g.fillStruct(&b, "v", x, u)
		b.WriteString("return v }()")
		return b.String()
	case *rArray:
		a := types.Unalias(t).Underlying().(*types.Array)
		allInt := true
		for _, e := range x.elems {
			if _, ok := e.(*rInt); !ok && !isZeroVal(e) {
				allInt = false
			}
		}
		if allInt {
			var ps []string
			for i, e := range x.elems {
				if isZeroVal(e) {
					continue
				}
				ps = append(ps, fmt.Sprintf("%d: %s", i, e.(*rInt).v.String()))
			}
			return ts + "{" + strings.Join(ps, ", ") + "}"
		}
		var b strings.Builder
		fmt.Fprintf(&b, "func() %s { var v %s; ", ts, ts)
		for i, e := range x.elems {
			if !isZeroVal(e) {
				fmt.Fprintf(&b, "v[%d] = %s; ", i, g.expr(e, a.Elem()))
			}
		}
		b.WriteString("return v }()")
		return b.String()
	case *rPtr:
		if x.obj != nil {
			return fmt.Sprintf("govcObj%d", x.obj.id)
		}
		return fmt.Sprintf("&govcBlk%d[%d]", x.blk.id, x.idx)
	case *rSlice:
		return fmt.Sprintf("%s(govcBlk%d[%d:%d:%d])", "("+ts+")", x.blk.id, x.off, x.off+x.len, x.off+x.cap)
	}
	panic(unsupportedErr{fmt.Sprintf("replay generator: cannot render %T", v)})
}

func (g *genCtx) fillStruct(b *strings.Builder, lhs string, x *rStruct, u *types.Struct) {
	for i, f := range x.fields {
		if isZeroVal(f) {
			continue
		}
		fv := u.Field(i)
		if fv.Name() == "_" {
			continue
		}
		if g.fieldAccessible(fv) {
			fmt.Fprintf(b, "%s.%s = %s; ", lhs, fv.Name(), g.expr(f, fv.Type()))
		} else {
			fmt.Fprintf(b, "govcReplaySetField(&%s, %q, %s); ", strings.TrimPrefix(lhs, "*"), fv.Name(), g.expr(f, fv.Type()))
		}
	}
}

// describe gives a short human-readable rendering of a reconstructed value (for the replay record).
func describe(v rVal, depth int) string {
	if isZeroVal(v) {
		return "zero"
	}
	switch x := v.(type) {
	case *rInt:
		return x.v.String()
	case *rBig:
		return x.v.String()
	case *rBool:
		return strconv.FormatBool(x.v)
	case *rString:
		return strconv.Quote(string(x.b))
	case *rErr:
		return "non-nil error"
	case *rReader:
		return fmt.Sprintf("bytes.Reader{len %d, pos %d}", x.len, x.pos)
	case *rStruct:
		if depth > 3 {
			return "{…}"
		}
		var ps []string
		for i, f := range x.fields {
			if !isZeroVal(f) {
				ps = append(ps, fmt.Sprintf("f%d: %s", i, describe(f, depth+1)))
			}
		}
		return "{" + strings.Join(ps, ", ") + "}"
	case *rArray:
		var ps []string
		for i, f := range x.elems {
			if !isZeroVal(f) && len(ps) < 40 {
				ps = append(ps, fmt.Sprintf("%d: %s", i, describe(f, depth+1)))
			}
		}
		return "[" + strings.Join(ps, ", ") + "]"
	case *rPtr:
		if x.obj != nil {
			if depth > 3 {
				return fmt.Sprintf("&obj%d", x.obj.id)
			}
			return fmt.Sprintf("&obj%d%s", x.obj.id, "")
		}
		return fmt.Sprintf("&blk%d[%d]", x.blk.id, x.idx)
	case *rSlice:
		var ps []string
		for j := x.off; j < x.off+x.len && len(ps) < 40; j++ {
			ps = append(ps, describe(x.blk.elems[j], depth+1))
		}
		return fmt.Sprintf("blk%d[%d:%d:%d]{%s}", x.blk.id, x.off, x.off+x.len, x.off+x.cap, strings.Join(ps, ", "))
	}
	return "?"
}

// replayPlan is everything needed to print the test.
type replayPlan struct {
	g        *genCtx
	fn       *ssa.Function
	m        *modelReader
	params   []rVal
	kind     string   // obligation kind
	name     string   // obligation name
	posFile  string   // base name of the file of the obligation
	posLine  int
	pre      []planClause // requires clauses
	hoists   []string
	clause   *planClause // violated post clause / panics-when condition
	mode     string      // panic-at | post | panic-spec | panic-iff
	variants int
	notes    []string
}

type planClause struct {
	text string
	code string // Go bool expression ("" = not executable)
	why  string
}

func (p *replayPlan) source() string {
	g := p.g
	fn := p.fn
	sig := fn.Signature
	var b strings.Builder
	w := func(format string, args ...any) { fmt.Fprintf(&b, format, args...) }

	var body strings.Builder
	bw := func(format string, args ...any) { fmt.Fprintf(&body, format, args...) }
	// heap objects and blocks first (cycles and aliasing are then plain assignments)
	for _, o := range p.m.objList {
		bw("\tgovcObj%d := new(%s); _ = govcObj%d\n", o.id, g.typeStr(o.typ), o.id)
	}
	for _, bl := range p.m.blkList {
		bw("\tgovcBlk%d := make([]%s, %d); _ = govcBlk%d\n", bl.id, g.typeStr(bl.elem), bl.size, bl.id)
	}
	for _, o := range p.m.objList {
		if isZeroVal(o.val) {
			continue
		}
		if st, ok := o.val.(*rStruct); ok {
			var sb strings.Builder
			g.fillStruct(&sb, fmt.Sprintf("govcObj%d", o.id), st, types.Unalias(o.typ).Underlying().(*types.Struct))
			bw("\t%s\n", strings.ReplaceAll(sb.String(), "govcReplaySetField(&govcObj", "govcReplaySetField(govcObj"))
		} else {
			bw("\t*govcObj%d = %s\n", o.id, g.expr(o.val, o.typ))
		}
	}
	for _, bl := range p.m.blkList {
		var js []int
		for j, e := range bl.elems {
			if !isZeroVal(e) {
				js = append(js, j)
			}
		}
		sort.Ints(js)
		for _, j := range js {
			bw("\tgovcBlk%d[%d] = %s\n", bl.id, j, g.expr(bl.elems[j], bl.elem))
		}
	}
	// parameters
	var args []string
	for i, prm := range fn.Params {
		bw("\tvar govcArg%d %s = %s; _ = govcArg%d\n", i, g.typeStr(prm.Type()), g.expr(p.params[i], prm.Type()), i)
		args = append(args, fmt.Sprintf("govcArg%d", i))
	}
	// preconditions
	for i, c := range p.pre {
		if c.code == "" {
			bw("\t// requires %s -- not executable: %s\n", oneLine(c.text), oneLine(c.why))
			continue
		}
		bw("\tif v, ok, msg := govcReplayEval(func() bool { return %s }); !ok {\n\t\treturn \"INCONCLUSIVE precondition %d could not be evaluated: \" + msg\n\t} else if !v {\n\t\treturn \"NOT-REPRODUCED the reconstructed input does not satisfy the precondition: \" + %q\n\t}\n", c.code, i, oneLine(c.text))
	}
	// pre-state of the violated clause
	if p.clause != nil && p.clause.code != "" && (p.mode == "panic-spec" || p.mode == "panic-iff") {
		bw("\tgovcPw, govcPwOK, govcPwMsg := govcReplayEval(func() bool { return %s })\n", p.clause.code)
		bw("\tif !govcPwOK {\n\t\treturn \"INCONCLUSIVE the documented panic condition could not be evaluated: \" + govcPwMsg\n\t}\n")
	}
	for _, h := range p.hoists {
		bw("\t%s\n", h)
	}
	// the call
	var res []string
	for i := 0; i < sig.Results().Len(); i++ {
		bw("\tvar govcRes%d %s; _ = govcRes%d\n", i, g.typeStr(sig.Results().At(i).Type()), i)
		res = append(res, fmt.Sprintf("govcRes%d", i))
	}
	callee := fn.Name()
	cargs := args
	if sig.Recv() != nil {
		callee = "govcArg0." + fn.Name()
		cargs = args[1:]
	}
	argList := strings.Join(cargs, ", ")
	if sig.Variadic() && len(cargs) > 0 {
		argList += "..."
	}
	call := callee + "(" + argList + ")"
	if len(res) > 0 {
		call = strings.Join(res, ", ") + " = " + call
	}
	bw("\tgovcPanic := govcReplayCall(func() { %s })\n", call)
	at := ""
	if p.posFile != "" {
		at = fmt.Sprintf("%s:%d", p.posFile, p.posLine)
	}
	switch p.mode {
	case "panic-at":
		bw("\tif govcPanic == nil {\n\t\treturn \"NOT-REPRODUCED the call returned normally\"\n\t}\n")
		bw("\tif !govcPanic.at(%q) {\n\t\treturn \"NOT-REPRODUCED the call panicked, but not at %s: \" + govcPanic.String()\n\t}\n", at, at)
		bw("\tif !govcPanic.isKind(%q) {\n\t\treturn \"NOT-REPRODUCED a panic of another kind at %s: \" + govcPanic.String()\n\t}\n", p.kind, at)
		bw("\treturn \"REPRODUCED %s: the real code panics at %s: \" + govcPanic.String()\n", p.kind, at)
	case "panic-spec":
		bw("\tif govcPanic == nil {\n\t\treturn \"NOT-REPRODUCED the call returned normally\"\n\t}\n")
		bw("\tif !govcPanic.at(%q) {\n\t\treturn \"NOT-REPRODUCED the call panicked, but not at %s: \" + govcPanic.String()\n\t}\n", at, at)
		bw("\tif govcPw {\n\t\treturn \"NOT-REPRODUCED the panic is inside the documented panic condition\"\n\t}\n")
		bw("\treturn \"REPRODUCED panic-spec: explicit panic at %s outside the documented condition (%s): \" + govcPanic.String()\n", at, escQ(oneLine(p.clause.text)))
	case "panic-iff":
		bw("\tif govcPanic != nil {\n\t\treturn \"NOT-REPRODUCED the call panicked: \" + govcPanic.String()\n\t}\n")
		bw("\tif !govcPw {\n\t\treturn \"NOT-REPRODUCED the input is outside the documented panic condition\"\n\t}\n")
		bw("\treturn \"REPRODUCED panic-iff: normal return although the documented panic condition holds: %s\"\n", escQ(oneLine(p.clause.text)))
	case "post":
		bw("\tif govcPanic != nil {\n\t\treturn \"NOT-REPRODUCED the call panicked (no result to check): \" + govcPanic.String()\n\t}\n")
		bw("\tgovcHolds, govcOK, govcMsg := govcReplayEval(func() bool { return %s })\n", p.clause.code)
		bw("\tif !govcOK {\n\t\treturn \"INCONCLUSIVE the postcondition could not be evaluated: \" + govcMsg\n\t}\n")
		bw("\tif govcHolds {\n\t\treturn \"NOT-REPRODUCED the postcondition holds on the real results\"\n\t}\n")
		bw("\treturn \"REPRODUCED post: the real results violate the postcondition: %s \" + govcReplayShow(%s)\n", escQ(oneLine(p.clause.text)), strings.Join(append([]string{"\"results:\""}, res...), ", "))
	}

	w("// Code generated by govc (counterexample replay). Obligation: %s\n", p.name)
	w("package %s\n\nimport (\n\t\"bytes\"\n\t\"errors\"\n\t\"fmt\"\n\t\"math/big\"\n\t\"reflect\"\n\t\"runtime/debug\"\n\t\"strings\"\n\t\"testing\"\n\t\"unsafe\"\n", g.pkg.Name())
	for _, path := range g.impList {
		if strings.Contains(body.String(), g.imports[path]+".") { // an alias requested for a type that was not printed in the end
			w("\t%s %q\n", g.imports[path], path)
		}
	}
	w(")\n\n")
	w("var _ = errors.New\nvar _ = bytes.NewReader\nvar _ = big.NewInt\n\n")
	w("// govcReplayOnce rebuilds the counterexample's input (variant selects the content of data the model leaves open),\n// calls the real function and reports what was observed.\n")
	w("func govcReplayOnce(govcVariant int) string {\n\tgovcReplayVariant = govcVariant\n%s}\n\n", body.String())
	w("func TestGovcReplay(t *testing.T) {\n\tfor v := 0; v < %d; v++ {\n\t\tr := govcReplayOnce(v)\n\t\tfmt.Printf(\"GOVC-REPLAY variant %%d: %%s\\n\", v, r)\n\t\tif strings.HasPrefix(r, \"REPRODUCED\") {\n\t\t\tt.Fatalf(\"GOVC-REPLAY: REPRODUCED (variant %%d) %%s\", v, r)\n\t\t}\n\t}\n\tfmt.Println(\"GOVC-REPLAY: NOT-REPRODUCED\")\n}\n\n", p.variants)
	b.WriteString(replayHelpers)
	return b.String()
}

func oneLine(s string) string { return strings.Join(strings.Fields(s), " ") }

func escQ(s string) string {
	q := strconv.Quote(s)
	return q[1 : len(q)-1]
}

// replayHelpers is appended to every generated test file.
const replayHelpers = `// ---- helpers (identical in every replay test) ----

var govcReplayVariant int

type govcReplayPanic struct {
	val   any
	stack string
}

func (p *govcReplayPanic) String() string {
	s := fmt.Sprint(p.val)
	if len(s) > 300 {
		s = s[:300] + "…"
	}
	return fmt.Sprintf("panic(%T): %s", p.val, s)
}

// at: does the stack of the panic contain a frame at file:line (base name of the file)?
func (p *govcReplayPanic) at(pos string) bool {
	if pos == "" {
		return true
	}
	for _, l := range strings.Split(p.stack, "\n") {
		l = strings.TrimSpace(l)
		if i := strings.Index(l, " +0x"); i >= 0 {
			l = l[:i]
		}
		if strings.HasSuffix(l, "/"+pos) {
			return true
		}
	}
	return false
}

// isKind: is the panic of the class the obligation is about?
func (p *govcReplayPanic) isKind(kind string) bool {
	msg := fmt.Sprint(p.val)
	_, isRuntime := p.val.(interface{ RuntimeError() })
	switch kind {
	case "safe:index":
		return isRuntime && strings.Contains(msg, "index out of range")
	case "safe:slice":
		return isRuntime && (strings.Contains(msg, "slice bounds out of range") || strings.Contains(msg, "cannot convert slice") || strings.Contains(msg, "out of range"))
	case "safe:nil":
		return isRuntime && strings.Contains(msg, "nil pointer dereference")
	case "safe:div":
		return isRuntime && strings.Contains(msg, "divide by zero")
	case "safe:assert":
		return isRuntime && strings.Contains(msg, "interface conversion")
	case "safe:mapwrite":
		return strings.Contains(msg, "nil map")
	}
	return true
}

func govcReplayCall(f func()) (p *govcReplayPanic) {
	defer func() {
		if r := recover(); r != nil {
			p = &govcReplayPanic{val: r, stack: string(debug.Stack())}
		}
	}()
	f()
	return nil
}

func govcReplayEval(f func() bool) (v bool, ok bool, msg string) {
	defer func() {
		if r := recover(); r != nil {
			v, ok, msg = false, false, fmt.Sprint(r)
		}
	}()
	return f(), true, ""
}

func govcReplayShow(xs ...any) string {
	var ps []string
	for _, x := range xs {
		s := fmt.Sprintf("%+v", x)
		if len(s) > 200 {
			s = s[:200] + "…"
		}
		ps = append(ps, s)
	}
	return strings.Join(ps, " ")
}

func govcReplayN(s string) *big.Int {
	n, ok := new(big.Int).SetString(s, 0)
	if !ok {
		panic("bad number " + s)
	}
	return n
}

func govcReplayBig(s string) big.Int {
	var b big.Int
	b.SetString(s, 10)
	return b
}

func govcReplayTryInt(x any) (*big.Int, bool) {
	switch v := x.(type) {
	case nil:
		return nil, false
	case *big.Int:
		if v == nil {
			return nil, false
		}
		return v, true
	case big.Int:
		return new(big.Int).Set(&v), true
	}
	rv := reflect.ValueOf(x)
	switch rv.Kind() {
	case reflect.Int, reflect.Int8, reflect.Int16, reflect.Int32, reflect.Int64:
		return big.NewInt(rv.Int()), true
	case reflect.Uint, reflect.Uint8, reflect.Uint16, reflect.Uint32, reflect.Uint64, reflect.Uintptr:
		return new(big.Int).SetUint64(rv.Uint()), true
	}
	return nil, false
}

func govcReplayInt(x any) *big.Int {
	n, ok := govcReplayTryInt(x)
	if !ok {
		panic(fmt.Sprintf("not an integer: %T", x))
	}
	return n
}

type govcReplayInteger interface {
	~int | ~int8 | ~int16 | ~int32 | ~int64 | ~uint | ~uint8 | ~uint16 | ~uint32 | ~uint64 | ~uintptr
}

func govcReplayConv[T govcReplayInteger](x any) T {
	n := govcReplayInt(x)
	var r T
	switch {
	case n.IsInt64():
		r = T(n.Int64())
	case n.IsUint64():
		r = T(n.Uint64())
	default:
		panic("integer does not fit the Go type: " + n.String())
	}
	if govcReplayInt(r).Cmp(n) != 0 {
		panic("integer does not fit the Go type: " + n.String())
	}
	return r
}

func govcReplayIdx(x any) int {
	n := govcReplayInt(x)
	if !n.IsInt64() {
		panic("index out of int range: " + n.String())
	}
	return int(n.Int64())
}

func govcReplayBool(x any) bool {
	b, ok := x.(bool)
	if !ok {
		rv := reflect.ValueOf(x)
		if rv.IsValid() && rv.Kind() == reflect.Bool {
			return rv.Bool()
		}
		panic(fmt.Sprintf("not a bool: %T", x))
	}
	return b
}

func govcReplayIsNil(x any) bool {
	if x == nil {
		return true
	}
	rv := reflect.ValueOf(x)
	switch rv.Kind() {
	case reflect.Pointer, reflect.Slice, reflect.Map, reflect.Chan, reflect.Func, reflect.Interface, reflect.UnsafePointer:
		return rv.IsNil()
	}
	return false
}

func govcReplayEq(a, b any) bool {
	if a == nil || b == nil {
		return govcReplayIsNil(a) && govcReplayIsNil(b)
	}
	if x, ok := govcReplayTryInt(a); ok {
		if y, ok := govcReplayTryInt(b); ok {
			return x.Cmp(y) == 0
		}
	}
	return a == b
}

func govcReplayCmp(op string, a, b any) bool {
	switch op {
	case "==":
		return govcReplayEq(a, b)
	case "!=":
		return !govcReplayEq(a, b)
	}
	c := govcReplayInt(a).Cmp(govcReplayInt(b))
	switch op {
	case "<":
		return c < 0
	case "<=":
		return c <= 0
	case ">":
		return c > 0
	case ">=":
		return c >= 0
	}
	panic("operator " + op)
}

// govcReplayArith: mathematical integers; / and % are SMT-LIB div and mod (Euclidean), exactly as in specifications.
func govcReplayArith(op string, a, b any) any {
	if op == "+" {
		if s, ok := a.(string); ok {
			return s + b.(string)
		}
	}
	x := govcReplayInt(a)
	if op == "abs" {
		return new(big.Int).Abs(x)
	}
	y := govcReplayInt(b)
	z := new(big.Int)
	switch op {
	case "+":
		return z.Add(x, y)
	case "-":
		return z.Sub(x, y)
	case "*":
		return z.Mul(x, y)
	case "/":
		if y.Sign() == 0 {
			panic("division by zero in a specification (unspecified value)")
		}
		return z.Div(x, y)
	case "%":
		if y.Sign() == 0 {
			panic("modulo zero in a specification (unspecified value)")
		}
		return z.Mod(x, y)
	case "tdiv":
		return z.Quo(x, y)
	case "trem":
		return z.Rem(x, y)
	case "min":
		if x.Cmp(y) <= 0 {
			return x
		}
		return y
	case "max":
		if x.Cmp(y) >= 0 {
			return x
		}
		return y
	case "<<":
		if !y.IsInt64() || y.Int64() < 0 || y.Int64() >= 512 {
			panic("shift count")
		}
		return z.Mul(x, new(big.Int).Lsh(big.NewInt(1), uint(y.Int64())))
	case ">>":
		if !y.IsInt64() || y.Int64() < 0 || y.Int64() >= 512 {
			panic("shift count")
		}
		return z.Div(x, new(big.Int).Lsh(big.NewInt(1), uint(y.Int64())))
	case "&":
		return z.And(x, y)
	case "|":
		return z.Or(x, y)
	case "^":
		return z.Xor(x, y)
	}
	panic("operator " + op)
}

// govcReplayBound turns a guard bound into a loop bound: lower bounds are inclusive, upper bounds exclusive.
func govcReplayBound(x any, plusOne bool) *big.Int {
	n := new(big.Int).Set(govcReplayInt(x))
	if plusOne {
		n.Add(n, big.NewInt(1))
	}
	return n
}

func govcReplayRange(lo, hi *big.Int) (int64, int64) {
	if hi.Cmp(lo) <= 0 {
		return 0, 0
	}
	if !lo.IsInt64() || !hi.IsInt64() || hi.Int64()-lo.Int64() > 1<<22 {
		panic("quantifier range too large to enumerate")
	}
	return lo.Int64(), hi.Int64()
}

// govcReplayVal: val(x) of specifications — the big integer held by field i of a common.Integer (or any integer).
func govcReplayVal(x any) *big.Int {
	if n, ok := govcReplayTryInt(x); ok {
		return n
	}
	rv := reflect.ValueOf(x)
	for rv.Kind() == reflect.Pointer {
		rv = rv.Elem()
	}
	if rv.Kind() == reflect.Struct {
		cp := reflect.New(rv.Type()).Elem()
		cp.Set(rv)
		f := cp.FieldByName("i")
		if f.IsValid() {
			v := reflect.NewAt(f.Type(), unsafe.Pointer(f.UnsafeAddr())).Elem().Interface()
			if n, ok := govcReplayTryInt(v); ok {
				return n
			}
		}
	}
	panic(fmt.Sprintf("val() of %T", x))
}

func govcReplayBytesOf(x any) []byte {
	rv := reflect.ValueOf(x)
	for rv.Kind() == reflect.Pointer {
		rv = rv.Elem()
	}
	if (rv.Kind() == reflect.Slice || rv.Kind() == reflect.Array) && rv.Type().Elem().Kind() == reflect.Uint8 {
		out := make([]byte, rv.Len())
		for i := range out {
			out[i] = byte(rv.Index(i).Uint())
		}
		return out
	}
	panic(fmt.Sprintf("not a byte string: %T", x))
}

func govcReplayLexLt(a, b any) bool { return bytes.Compare(govcReplayBytesOf(a), govcReplayBytesOf(b)) < 0 }

func govcReplayBigBytes(a any) *big.Int { return new(big.Int).SetBytes(govcReplayBytesOf(a)) }

func govcReplayRdlen(r bytes.Reader) *big.Int { return big.NewInt(r.Size()) }

func govcReplayRdpos(r bytes.Reader) *big.Int { return big.NewInt(r.Size() - int64(r.Len())) }

// govcReplaySetField assigns a field that the test's package cannot name (unexported field of another package's struct).
func govcReplaySetField(p any, name string, v any) {
	f := reflect.ValueOf(p).Elem().FieldByName(name)
	reflect.NewAt(f.Type(), unsafe.Pointer(f.UnsafeAddr())).Elem().Set(reflect.ValueOf(v))
}

// govcReplaySnap copies a pre-state value (slices one level deep) for old(...).
func govcReplaySnap[T any](v T) T {
	rv := reflect.ValueOf(&v).Elem()
	switch rv.Kind() {
	case reflect.Slice:
		if !rv.IsNil() {
			cp := reflect.MakeSlice(rv.Type(), rv.Len(), rv.Len())
			reflect.Copy(cp, rv)
			rv.Set(cp)
		}
	case reflect.Pointer:
		if bi, ok := any(v).(*big.Int); ok && bi != nil {
			return any(new(big.Int).Set(bi)).(T)
		}
	}
	return v
}

// govcReplayFill: content of data the verification model leaves open (e.g. the bytes behind a bytes.Reader, of which only
// length and position are modelled). Variant 0 is all zero, 1 all 0xff, then deterministic pseudo-random patterns.
func govcReplayFill(n int64) []byte {
	b := make([]byte, n)
	switch govcReplayVariant {
	case 0:
	case 1:
		for i := range b {
			b[i] = 0xff
		}
	case 2:
		for i := range b {
			b[i] = byte(i + 1)
		}
	default:
		s := uint64(govcReplayVariant)*0x9E3779B97F4A7C15 + 1
		for i := range b {
			s ^= s << 13
			s ^= s >> 7
			s ^= s << 17
			b[i] = byte(s >> 24)
			if govcReplayVariant%3 == 0 && s%5 != 0 {
				b[i] = byte(s>>24) & 1 // mostly small values
			}
		}
	}
	return b
}

func govcReplayReader(n, pos int64) bytes.Reader {
	r := bytes.NewReader(govcReplayFill(n))
	r.Seek(pos, 0)
	return *r
}
`
