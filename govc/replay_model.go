package main

import (
	"bufio"
	"fmt"
	"go/types"
	"io"
	"math/big"
	"os"
	"os/exec"
	"strings"
	"time"
)

// ---------- interactive solver session ----------

// smtSession drives `z3 -in`: the obligation's script is sent once, then the model is queried term by term with
// (get-value ...). Every query is followed by (echo "@@done") so that answers (including error answers) stay in sync.
type smtSession struct {
	cmd      *exec.Cmd
	in       io.WriteCloser
	lines    chan string
	deadline time.Time
	queries  int
	dead     bool
	name     string
	base     string // answer to the obligation's own check-sat: sat, or unknown (candidate model)
	args     []string
	script   string // everything sent before the first check-sat (to restart a fresh solver)
}

func startSession(name string, args []string, deadline time.Time) (*smtSession, error) {
	cmd := exec.Command(args[0], args[1:]...)
	in, err := cmd.StdinPipe()
	if err != nil {
		return nil, err
	}
	out, err := cmd.StdoutPipe()
	if err != nil {
		return nil, err
	}
	cmd.Stderr = cmd.Stdout
	if err := cmd.Start(); err != nil {
		return nil, err
	}
	s := &smtSession{cmd: cmd, in: in, lines: make(chan string, 1024), deadline: deadline, name: name}
	go func() {
		r := bufio.NewReaderSize(out, 1<<20)
		for {
			l, err := r.ReadString('\n')
			if l != "" {
				s.lines <- l
			}
			if err != nil {
				close(s.lines)
				return
			}
		}
	}()
	return s, nil
}

func (s *smtSession) close() {
	if s == nil || s.dead {
		return
	}
	s.dead = true
	s.in.Close()
	if s.cmd.Process != nil {
		s.cmd.Process.Kill()
	}
	go func() {
		for range s.lines {
		}
	}()
	s.cmd.Wait()
}

// write sends commands that produce no answer.
func (s *smtSession) write(cmds string) error {
	if s.dead {
		return fmt.Errorf("solver session is closed")
	}
	if replayDebug && len(cmds) < 2000 {
		fmt.Fprintf(os.Stderr, "replay> %s", truncate(cmds, 300))
	}
	done := make(chan error, 1)
	go func() {
		_, err := io.WriteString(s.in, cmds)
		done <- err
	}()
	select {
	case err := <-done:
		return err
	case <-time.After(time.Until(s.deadline)):
		s.close()
		return fmt.Errorf("solver session timed out (write)")
	}
}

// ask sends one command and returns its complete answer.
func (s *smtSession) ask(cmd string) (string, error) {
	if err := s.write(cmd + "\n(echo \"@@done\")\n"); err != nil {
		return "", err
	}
	s.queries++
	var b strings.Builder
	for {
		select {
		case l, ok := <-s.lines:
			if !ok {
				s.dead = true
				return b.String(), fmt.Errorf("solver exited: %s", truncate(b.String(), 300))
			}
			if strings.Trim(strings.TrimSpace(l), "\"") == "@@done" {
				return strings.TrimSpace(b.String()), nil
			}
			if strings.HasPrefix(l, "WARNING") {
				continue
			}
			b.WriteString(l)
		case <-time.After(time.Until(s.deadline)):
			s.close()
			return b.String(), fmt.Errorf("solver session timed out")
		}
	}
}

func (s *smtSession) checkSat() string {
	a, err := s.ask("(check-sat)")
	if err != nil {
		return "error: " + err.Error()
	}
	return strings.TrimSpace(a)
}

// incompleteOnly: after `unknown`, did the solver stop because its quantifier / array reasoning is incomplete (then the
// candidate model satisfies everything it did look at), and not because it ran out of time?
func (s *smtSession) incompleteOnly() bool {
	a, err := s.ask("(get-info :reason-unknown)")
	return err == nil && strings.Contains(a, "incomplete")
}

// getValues evaluates terms in the current model.
func (s *smtSession) getValues(terms []string) ([]*sx, error) {
	var out []*sx
	for len(terms) > 0 {
		n := len(terms)
		if n > 128 {
			n = 128
		}
		a, err := s.ask("(get-value (" + strings.Join(terms[:n], " ") + "))")
		if err != nil {
			return nil, err
		}
		x, _, perr := parseSx(a, 0)
		if perr != nil || !x.isL || x.head() == "error" || len(x.list) != n {
			return nil, fmt.Errorf("get-value failed: %s", truncate(a, 300))
		}
		for _, p := range x.list {
			if !p.isL || len(p.list) != 2 {
				return nil, fmt.Errorf("get-value: unexpected answer %s", truncate(p.String(), 200))
			}
			out = append(out, p.list[1])
		}
		terms = terms[n:]
	}
	return out, nil
}

// ---------- intermediate representation of reconstructed inputs ----------

type rVal interface{}

type (
	rInt    struct{ v *big.Int }  // integer of a Go integer type
	rBig    struct{ v *big.Int }  // math/big.Int value
	rBool   struct{ v bool }
	rString struct{ b []byte }
	rStruct struct{ fields []rVal } // by field index; nil = zero value
	rArray  struct{ elems []rVal }
	rPtr    struct {
		obj *rObj   // pointer to an object of its own
		blk *rBlock // or to element idx of a block
		idx int
	}
	rSlice struct {
		blk           *rBlock // nil: nil slice
		off, len, cap int
	}
	rReader struct{ len, pos int64 } // bytes.Reader (positional model: length and position; content is not modelled)
	rErr    struct{}                  // non-nil error of unknown dynamic type
	rZero   struct{}
)

type rObj struct {
	id   int
	typ  types.Type
	addr string
	val  rVal
}

type rBlock struct {
	id    int
	elem  types.Type
	addr  string
	size  int
	elems map[int]rVal
}

const (
	replayMaxLen     = 1024    // longest slice / string reconstructed
	replayMaxObjects = 400     // heap objects
	replayMaxQueries = 25000   // terms evaluated in the model
	replayMaxBytes   = 64 << 20 // total size of reconstructed blocks
)

type unsupportedErr struct{ msg string }

func (u unsupportedErr) Error() string { return u.msg }

type modelReader struct {
	fc       *FnCtx
	s        *smtSession
	objs     map[string]*rObj
	blocks   map[string]*rBlock
	objList  []*rObj
	blkList  []*rBlock
	notes    []string // approximations made (the reconstructed input may differ from the model)
	info     []string // harmless remarks
	nterms   int
	pins     []string
	npinned  int
	shapes   int
	restarts int
	repairs  int
	accepted string // shape constraints accepted so far (re-sent to every fresh solver)
	wmark    *big.Int
	inputs   []string // human-readable summary of the parameter values
}

func (m *modelReader) approx(format string, args ...any) {
	n := fmt.Sprintf(format, args...)
	for _, x := range m.notes {
		if x == n {
			return
		}
	}
	m.notes = append(m.notes, n)
}

func (m *modelReader) get(terms ...string) []*sx {
	m.nterms += len(terms)
	if m.nterms > replayMaxQueries {
		panic(unsupportedErr{"model too large to reconstruct (more than " + fmt.Sprint(replayMaxQueries) + " values needed)"})
	}
	vs, err := m.s.getValues(terms)
	if err != nil {
		panic(unsupportedErr{"model extraction: " + err.Error()})
	}
	return vs
}

func (m *modelReader) getInt(term string) *big.Int {
	v := m.get(term)[0]
	n, ok := sxInt(v)
	if !ok {
		panic(unsupportedErr{"model extraction: not an integer value: " + term + " = " + truncate(v.String(), 100)})
	}
	return n
}

func (m *modelReader) pin(term string, v *sx) {
	m.pins = append(m.pins, fmt.Sprintf("(assert (= %s %s))\n", term, v.String()))
}

// shape tries to move to a model that additionally satisfies cond (a friendlier shape: pointer to an object of its own,
// short slice ...). Everything read so far is pinned first, so earlier answers stay valid. Returns false (model
// unchanged up to unread terms) when no such model is found quickly.
func (m *modelReader) shape(cond string) bool {
	return m.shapeCmds("(assert " + cond + ")\n")
}

func (m *modelReader) shapeCmds(cmds string) bool {
	if m.shapes >= 24 || time.Until(m.s.deadline) < 20*time.Second {
		return false
	}
	m.shapes++
	if m.s.script != "" && m.restarts >= 1 {
		// (after the incremental way below has failed once) A FRESH solver gets the query, everything read so far (pinned), the shape constraints accepted so far and the new
		// one. Incremental push/check/pop proved unreliable here: after one slow check the solver stays slow. The current
		// solver (and its model) stays untouched until the new one has answered.
		per := 15 * time.Second
		if d := time.Until(m.s.deadline) - 10*time.Second; d < per {
			per = d
		}
		ns, err := startSession(m.s.name, m.s.args, time.Now().Add(per))
		if err != nil {
			return false
		}
		ns.write(m.s.script + strings.Join(m.pins, "") + m.accepted + cmds)
		r := ns.checkSat()
		if r == m.s.base && (r == "sat" || ns.incompleteOnly()) {
			if _, err := ns.getValues([]string{"H0_W"}); err == nil {
				ns.base, ns.script, ns.args, ns.deadline = m.s.base, m.s.script, m.s.args, m.s.deadline
				m.s.close()
				m.s = ns
				m.accepted += cmds
				return true
			}
		}
		ns.close()
		return false
	}
	var b strings.Builder
	for _, p := range m.pins[m.npinned:] {
		b.WriteString(p)
	}
	m.npinned = len(m.pins)
	b.WriteString("(push 1)\n" + cmds + "(set-option :timeout 15000)\n")
	if err := m.s.write(b.String()); err != nil {
		panic(unsupportedErr{"model extraction: " + err.Error()})
	}
	r := m.s.checkSat()
	m.s.write("(set-option :timeout 4294967295)\n")
	if r == m.s.base && (r == "sat" || m.s.incompleteOnly()) {
		if _, err := m.s.getValues([]string{"H0_W"}); err == nil {
			return true
		}
	}
	if r == "unsat" {
		m.s.write("(pop 1)\n(set-option :timeout 20000)\n")
		r2 := m.s.checkSat()
		m.s.write("(set-option :timeout 4294967295)\n")
		if r2 == m.s.base {
			if _, err := m.s.getValues([]string{"H0_W"}); err == nil {
				return false
			}
		}
	}
	// a timed-out attempt leaves the solver in a slow state: go back to a fresh solver with everything read so far pinned
	if m.s.script == "" {
		panic(unsupportedErr{"model extraction: the solver lost the model while shaping (" + r + ")"})
	}
	old := m.s
	old.close()
	ns, err := startSession(old.name, old.args, old.deadline)
	if err != nil {
		panic(unsupportedErr{"model extraction: " + err.Error()})
	}
	ns.base, ns.script, ns.args = old.base, old.script, old.args
	m.s = ns
	ns.write(ns.script + strings.Join(m.pins, ""))
	if r := ns.checkSat(); r != ns.base {
		panic(unsupportedErr{"model extraction: the solver lost the model while shaping (" + r + ")"})
	}
	if m.restarts++; m.restarts >= 3 {
		m.shapes += 1000 // no further shaping after the third restart
	}
	return false
}

func sxIsNilPtr(v *sx) bool { return v.String() == "(Base 0)" }

// ptrRootOK: a pointer the function can have loaded satisfies 0 <= root < entry watermark; anything else is an
// unconstrained cell of the model (never read on the path) and is reconstructed as nil.
func (m *modelReader) ptrRootOK(v *sx) bool {
	x := v
	for x.isL && (x.head() == "Fld" || x.head() == "Elem") && len(x.list) == 3 {
		x = x.list[1]
	}
	if x.head() != "Base" || len(x.list) != 2 {
		return false
	}
	n, ok := sxInt(x.list[1])
	if !ok {
		return false
	}
	return n.Sign() >= 0 && n.Cmp(m.wmark) < 0 // (Fld (Base 0) k) is a legal non-nil address of the model (only (Base 0) itself is nil)
}

func (m *modelReader) entryComp(key string) (string, bool) {
	if _, ok := m.fc.comps[key]; !ok {
		return "", false
	}
	return compInit(key), true
}

// cellTerm is the entry-state value of the leaf cell (or array-of-leaf block) at a concrete address; mirrors FnCtx.load.
func (m *modelReader) cellTerm(addr string, t types.Type) (string, bool) {
	fc := m.fc
	if a, ok := isArrayT(t); ok {
		k, _ := fc.bKey(a.Elem())
		c, ok := m.entryComp(k)
		if !ok {
			return "", false
		}
		return app("select", c, addr), true
	}
	if par, idx, ok := isElemTerm(addr); ok {
		k, _ := fc.bKey(t)
		c, ok := m.entryComp(k)
		if !ok {
			return "", false
		}
		return app("select", app("select", c, par), idx), true
	}
	k, _ := fc.cKey(t)
	c, ok := m.entryComp(k)
	if !ok {
		return "", false
	}
	return app("select", c, addr), true
}

// readAt reconstructs the value of type t stored at the concrete address addr in the entry state.
func (m *modelReader) readAt(addr string, t types.Type, path string) rVal {
	t = types.Unalias(t)
	if isStructT(t) {
		u := t.Underlying().(*types.Struct)
		out := &rStruct{fields: make([]rVal, u.NumFields())}
		for i := 0; i < u.NumFields(); i++ {
			key := fmt.Sprintf("%s#%d", types.TypeString(t, nil), i)
			id, ok := m.fc.tc.fieldID[key]
			if replayDebug {
				fmt.Fprintf(os.Stderr, "replay: field %s.%s key=%q known=%v id=%d\n", path, u.Field(i).Name(), key, ok, id)
			}
			if !ok {
				continue // the verification condition never mentions this field: zero value
			}
			out.fields[i] = m.readAt(mkFld(addr, id), u.Field(i).Type(), path+"."+u.Field(i).Name())
		}
		return out
	}
	if a, ok := isArrayT(t); ok && !isLeaf(a.Elem()) {
		if a.Len() > replayMaxLen {
			panic(unsupportedErr{fmt.Sprintf("unsupported input kind: array %s of %d aggregates at %s", t, a.Len(), path)})
		}
		out := &rArray{elems: make([]rVal, a.Len())}
		for i := int64(0); i < a.Len(); i++ {
			out.elems[i] = m.readAt(mkElem(addr, num(i)), a.Elem(), fmt.Sprintf("%s[%d]", path, i))
		}
		return out
	}
	term, ok := m.cellTerm(addr, t)
	if !ok {
		return nil
	}
	return m.readVal(term, t, path)
}

func (m *modelReader) readInt(term string, b *types.Basic, path string) rVal {
	n := m.getInt(term)
	if lo, hi, ok := intRange(b); ok && (n.Cmp(lo) < 0 || n.Cmp(hi) >= 0) {
		// only cells the path never loads can be out of range (loads assume the type invariant)
		return nil
	}
	m.pin(term, &sx{atom: bignum(n)})
	return &rInt{v: n}
}

// readVal reconstructs the Go value denoted by an SMT term of the sort of t.
func (m *modelReader) readVal(term string, t types.Type, path string) rVal {
	t = types.Unalias(t)
	fc := m.fc
	if isBigInt(t) {
		n := m.getInt(term)
		m.pin(term, &sx{atom: bignum(n)})
		return &rBig{v: n}
	}
	if isOpaqueStruct(t) {
		return m.readOpaque(term, t, path)
	}
	switch u := t.Underlying().(type) {
	case *types.Basic:
		switch {
		case u.Info()&types.IsBoolean != 0:
			v := m.get(term)[0]
			m.pin(term, v)
			return &rBool{v: v.String() == "true"}
		case u.Info()&types.IsInteger != 0:
			return m.readInt(term, u, path)
		case u.Info()&types.IsString != 0:
			n := m.getInt(app("strlen", term))
			if n.Sign() < 0 || n.Cmp(big.NewInt(replayMaxLen)) > 0 {
				if n.Sign() >= 0 && m.shape(app("<=", app("strlen", term), "64")) {
					n = m.getInt(app("strlen", term))
				} else if n.Sign() < 0 {
					return nil
				} else {
					panic(unsupportedErr{fmt.Sprintf("model needs a string of length %s at %s (limit %d)", n, path, replayMaxLen)})
				}
			}
			m.pin(app("strlen", term), &sx{atom: n.String()})
			var ts []string
			for i := int64(0); i < n.Int64(); i++ {
				ts = append(ts, app("strat", term, num(i)))
			}
			bs := make([]byte, n.Int64())
			if len(ts) > 0 {
				for i, v := range m.get(ts...) {
					c, ok := sxInt(v)
					if ok && c.Sign() >= 0 && c.Cmp(big.NewInt(256)) < 0 {
						bs[i] = byte(c.Int64())
					} else {
						bs[i] = 'x'
						m.approx("string byte %s[%d] is not a byte in the model; 'x' used", path, i)
					}
				}
			}
			return &rString{b: bs}
		case u.Info()&types.IsFloat != 0:
			panic(unsupportedErr{"unsupported input kind: float at " + path})
		case u.Kind() == types.UnsafePointer:
			panic(unsupportedErr{"unsupported input kind: unsafe.Pointer at " + path})
		}
		return nil
	case *types.Struct:
		s := fc.tc.sortOf(t)
		out := &rStruct{fields: make([]rVal, u.NumFields())}
		for i := 0; i < u.NumFields(); i++ {
			out.fields[i] = m.readVal(app(fmt.Sprintf("%s_f%d", s, i), term), u.Field(i).Type(), path+"."+u.Field(i).Name())
		}
		return out
	case *types.Array:
		if u.Len() > replayMaxLen {
			panic(unsupportedErr{fmt.Sprintf("unsupported input kind: array of %d elements at %s", u.Len(), path)})
		}
		out := &rArray{elems: make([]rVal, u.Len())}
		if eb, ok := types.Unalias(u.Elem()).Underlying().(*types.Basic); ok && eb.Info()&types.IsInteger != 0 {
			var ts []string
			for i := int64(0); i < u.Len(); i++ {
				ts = append(ts, app("select", term, num(i)))
			}
			if len(ts) > 0 {
				lo, hi, _ := intRange(eb)
				for i, v := range m.get(ts...) {
					n, ok := sxInt(v)
					if ok && lo != nil && n.Cmp(lo) >= 0 && n.Cmp(hi) < 0 {
						out.elems[i] = &rInt{v: n}
						m.pin(ts[i], &sx{atom: bignum(n)})
					}
				}
			}
			return out
		}
		for i := int64(0); i < u.Len(); i++ {
			out.elems[i] = m.readVal(app("select", term, num(i)), u.Elem(), fmt.Sprintf("%s[%d]", path, i))
		}
		return out
	case *types.Pointer:
		return m.readPtr(term, u.Elem(), path)
	case *types.Slice:
		return m.readSlice(term, u.Elem(), path)
	case *types.Interface:
		tag := m.getInt(app("itag", term))
		if tag.Sign() == 0 {
			m.pin(app("itag", term), &sx{atom: "0"})
			return nil
		}
		if m.shape(eq(app("itag", term), "0")) {
			m.pin(app("itag", term), &sx{atom: "0"})
			return nil
		}
		if isErrorType(t) {
			m.approx("%s: non-nil error of unknown dynamic type; errors.New used", path)
			return &rErr{}
		}
		panic(unsupportedErr{fmt.Sprintf("unsupported input kind: non-nil interface value (%s) at %s", shortType(t.String()), path)})
	case *types.Map, *types.Chan, *types.Signature:
		v := m.get(term)[0]
		if sxIsNilPtr(v) || !m.ptrRootOK(v) {
			return nil
		}
		if m.shape(eq(term, nilPtr)) {
			return nil
		}
		kind := "map"
		switch u.(type) {
		case *types.Chan:
			kind = "channel"
		case *types.Signature:
			kind = "function value / closure"
		}
		panic(unsupportedErr{fmt.Sprintf("unsupported input kind: non-nil %s (%s) at %s", kind, shortType(t.String()), path)})
	}
	panic(unsupportedErr{fmt.Sprintf("unsupported input kind: %s at %s", shortType(t.String()), path)})
}

func (m *modelReader) readOpaque(term string, t types.Type, path string) rVal {
	ts := types.TypeString(t, nil)
	if ts == "bytes.Reader" {
		_, hasLen := m.fc.ufs["sf_bytes_rdlen"]
		_, hasPos := m.fc.ufs["sf_bytes_rdpos"]
		if !hasLen && !hasPos {
			return nil
		}
		ln, pos := big.NewInt(0), big.NewInt(0)
		if hasLen && hasPos {
			// the contracts do not restrict the entry state of a reader; a reachable one has 0 <= pos <= len
			l0, p0 := m.getInt(app("sf_bytes_rdlen", term)), m.getInt(app("sf_bytes_rdpos", term))
			if p0.Sign() < 0 || p0.Cmp(l0) > 0 || l0.Cmp(big.NewInt(replayMaxLen)) > 0 {
				ok := m.shape(and(app("<=", "0", app("sf_bytes_rdpos", term)), app("<=", app("sf_bytes_rdpos", term), app("sf_bytes_rdlen", term)), app("<=", app("sf_bytes_rdlen", term), "256")))
				if !ok {
					m.shape(and(app("<=", "0", app("sf_bytes_rdpos", term)), app("<=", app("sf_bytes_rdpos", term), app("sf_bytes_rdlen", term))))
				}
			}
		}
		if hasLen {
			ln = m.getInt(app("sf_bytes_rdlen", term))
			if ln.Cmp(big.NewInt(replayMaxLen)) > 0 && m.shape(app("<=", app("sf_bytes_rdlen", term), "256")) {
				ln = m.getInt(app("sf_bytes_rdlen", term))
			}
			m.pin(app("sf_bytes_rdlen", term), &sx{atom: bignum(ln)})
		}
		if hasPos {
			pos = m.getInt(app("sf_bytes_rdpos", term))
			m.pin(app("sf_bytes_rdpos", term), &sx{atom: bignum(pos)})
		}
		if !hasLen {
			ln = pos
		}
		if ln.Sign() < 0 || pos.Sign() < 0 || pos.Cmp(ln) > 0 {
			m.approx("%s: bytes.Reader with length %s / position %s in the model (not a reachable reader state); empty reader used", path, ln, pos)
			return &rReader{}
		}
		if ln.Cmp(big.NewInt(replayMaxBytes)) > 0 {
			panic(unsupportedErr{fmt.Sprintf("model implies a reader of %s bytes at %s", ln, path)})
		}
		m.info = append(m.info, fmt.Sprintf("%s: bytes.Reader content is not modelled (positional model): candidate contents are tried", path))
		return &rReader{len: ln.Int64(), pos: pos.Int64()}
	}
	// other dependency structs (sync.Mutex, time.Time ...) are uninterpreted values: their zero value is used
	m.info = append(m.info, fmt.Sprintf("%s: value of external type %s is uninterpreted in the model; zero value used", path, ts))
	return nil
}

func (m *modelReader) readPtr(term string, elem types.Type, path string) rVal {
	v := m.get(term)[0]
	if sxIsNilPtr(v) {
		m.pin(term, v)
		return nil
	}
	if !m.ptrRootOK(v) {
		return nil
	}
	if v.head() != "Base" {
		if m.shape("((_ is Base) " + term + ")") {
			v = m.get(term)[0]
		}
	}
	m.pin(term, v)
	addr := v.String()
	if v.head() == "Elem" && len(v.list) == 3 {
		// pointer to an element of a block: reconstructed as &block[i] so that it aliases slices over the same block
		if i, ok := sxInt(v.list[2]); ok && i.Sign() >= 0 && i.Cmp(big.NewInt(replayMaxLen)) < 0 && v.list[1].head() == "Base" {
			b := m.block(v.list[1].String(), elem)
			j := int(i.Int64())
			m.blockElem(b, j, path)
			return &rPtr{blk: b, idx: j}
		}
	}
	if v.head() != "Base" {
		m.approx("%s: interior pointer %s reconstructed as a separate object (aliasing with its parent object is lost)", path, addr)
	}
	key := addr + "|" + types.TypeString(elem, nil)
	if o, ok := m.objs[key]; ok {
		return &rPtr{obj: o}
	}
	if len(m.objList) >= replayMaxObjects {
		m.approx("%s: more than %d heap objects in the model; pointer left nil", path, replayMaxObjects)
		return nil
	}
	o := &rObj{id: len(m.objList) + 1, typ: elem, addr: addr}
	m.objs[key] = o
	m.objList = append(m.objList, o)
	o.val = m.readAt(addr, elem, "(*"+path+")")
	return &rPtr{obj: o}
}

func (m *modelReader) block(arr string, elem types.Type) *rBlock {
	key := arr + "|" + types.TypeString(elem, nil)
	if b, ok := m.blocks[key]; ok {
		return b
	}
	b := &rBlock{id: len(m.blkList) + 1, elem: elem, addr: arr, elems: map[int]rVal{}}
	m.blocks[key] = b
	m.blkList = append(m.blkList, b)
	return b
}

func (m *modelReader) blockElem(b *rBlock, j int, path string) {
	if j+1 > b.size {
		b.size = j + 1
	}
	if _, done := b.elems[j]; done {
		return
	}
	b.elems[j] = &rZero{}
	b.elems[j] = m.readAt(mkElem(b.addr, num(int64(j))), b.elem, fmt.Sprintf("%s[%d]", path, j))
}

var replayDebug = os.Getenv("GOVC_REPLAY_DEBUG") != ""

func (m *modelReader) readSlice(term string, elem types.Type, path string) (res rVal) {
	vs := m.get(sarr(term), soff(term), slen(term), scap(term))
	if replayDebug {
		fmt.Fprintf(os.Stderr, "replay: slice %s = %s %s %s %s (W=%s)\n", path, vs[0], vs[1], vs[2], vs[3], m.wmark)
		defer func() { fmt.Fprintf(os.Stderr, "replay: slice %s -> %s\n", path, describe(res, 3)) }()
	}
	arr := vs[0]
	off, ok1 := sxInt(vs[1])
	ln, ok2 := sxInt(vs[2])
	cp, ok3 := sxInt(vs[3])
	if !ok1 || !ok2 || !ok3 {
		panic(unsupportedErr{"model extraction: slice header of " + path})
	}
	if sxIsNilPtr(arr) {
		m.pin(sarr(term), arr)
		return nil
	}
	if off.Sign() < 0 || ln.Sign() < 0 || cp.Cmp(ln) < 0 || !m.ptrRootOK(arr) {
		// not a well-formed slice: a cell the path never loads (then any value is as good: nil), or one that only
		// specifications talk about; a few of them may be repaired by asking for a well-formed header
		if m.repairs >= 4 {
			return nil
		}
		m.repairs++
		wfS := and(app("<=", "0", soff(term)), app("<=", "0", slen(term)), app("<=", slen(term), scap(term)), app("<=", app("+", soff(term), scap(term)), "64"),
			implies(eq(sarr(term), nilPtr), eq(scap(term), "0")), app(">=", app("root", sarr(term)), "0"), app("<", app("root", sarr(term)), "H0_W"))
		if !m.shape(wfS) {
			return nil
		}
		vs = m.get(sarr(term), soff(term), slen(term), scap(term))
		arr = vs[0]
		off, ok1 = sxInt(vs[1])
		ln, ok2 = sxInt(vs[2])
		cp, ok3 = sxInt(vs[3])
		if !ok1 || !ok2 || !ok3 || off.Sign() < 0 || ln.Sign() < 0 || cp.Cmp(ln) < 0 || !m.ptrRootOK(arr) {
			return nil
		}
		if sxIsNilPtr(arr) {
			m.pin(sarr(term), arr)
			return nil
		}
	}
	reshaped := false
	if arr.head() != "Base" && m.shape("((_ is Base) "+sarr(term)+")") {
		reshaped = true
	}
	big64 := big.NewInt(64)
	if ln.Cmp(big64) > 0 || new(big.Int).Add(off, cp).Cmp(big.NewInt(256)) > 0 {
		wfS := and(app("<=", "0", soff(term)), app("<=", "0", slen(term)), app("<=", slen(term), scap(term)))
		if m.shape(and(wfS, app("<=", slen(term), "16"), app("<=", app("+", soff(term), scap(term)), "64"))) ||
			m.shape(and(wfS, app("<=", slen(term), "256"), app("<=", app("+", soff(term), scap(term)), "1024"))) ||
			m.shape(and(wfS, app("<=", app("+", soff(term), scap(term)), num(replayMaxLen)))) {
			reshaped = true
		}
	}
	if reshaped {
		vs = m.get(sarr(term), soff(term), slen(term), scap(term))
		arr = vs[0]
		off, ok1 = sxInt(vs[1])
		ln, ok2 = sxInt(vs[2])
		cp, ok3 = sxInt(vs[3])
		if !ok1 || !ok2 || !ok3 {
			panic(unsupportedErr{"model extraction: slice header of " + path})
		}
		if sxIsNilPtr(arr) || off.Sign() < 0 || ln.Sign() < 0 || cp.Cmp(ln) < 0 || !m.ptrRootOK(arr) {
			return nil
		}
	}
	m.pin(sarr(term), arr)
	m.pin(soff(term), &sx{atom: bignum(off)})
	m.pin(slen(term), &sx{atom: bignum(ln)})
	m.pin(scap(term), &sx{atom: bignum(cp)})
	if arr.head() != "Base" {
		panic(unsupportedErr{fmt.Sprintf("unsupported input kind: slice %s whose backing array is part of another object (%s)", path, arr)})
	}
	end := new(big.Int).Add(off, cp)
	if ln.Cmp(big.NewInt(replayMaxLen)) > 0 {
		panic(unsupportedErr{fmt.Sprintf("model needs a slice of %s elements at %s (limit %d)", ln, path, replayMaxLen)})
	}
	if !end.IsInt64() || end.Int64()*replayElemSize(elem) > replayMaxBytes {
		panic(unsupportedErr{fmt.Sprintf("model implies an allocation of %s elements of %s at %s (limit %d MB)", end, shortType(elem.String()), path, replayMaxBytes>>20)})
	}
	b := m.block(arr.String(), elem)
	o, n, c := int(off.Int64()), int(ln.Int64()), int(cp.Int64())
	if o+c > b.size {
		b.size = o + c
	}
	// the visible window is reconstructed element by element; spare capacity only when it is small
	upto := o + n
	if lt := types.Unalias(elem); isLeaf(lt) {
		if eb, ok := lt.Underlying().(*types.Basic); ok && eb.Info()&types.IsInteger != 0 {
			if c-n <= 64 {
				upto = o + c // spare capacity of integer blocks (what an in-place append would expose); other spare cells stay zero
			}
			// bulk read of integer elements
			if term0, ok := m.cellTerm(mkElem(arr.String(), "0"), elem); ok {
				_ = term0
				var ts []string
				var js []int
				for j := o; j < upto; j++ {
					if _, done := b.elems[j]; done {
						continue
					}
					t, _ := m.cellTerm(mkElem(arr.String(), num(int64(j))), elem)
					ts = append(ts, t)
					js = append(js, j)
				}
				if len(ts) > 0 {
					lo, hi, _ := intRange(eb)
					for i, v := range m.get(ts...) {
						b.elems[js[i]] = nil
						if x, ok := sxInt(v); ok && lo != nil && x.Cmp(lo) >= 0 && x.Cmp(hi) < 0 {
							b.elems[js[i]] = &rInt{v: x}
							m.pin(ts[i], &sx{atom: bignum(x)})
						}
					}
				}
			}
			return &rSlice{blk: b, off: o, len: n, cap: c}
		}
	}
	for j := o; j < upto; j++ {
		m.blockElem(b, j, path)
	}
	return &rSlice{blk: b, off: o, len: n, cap: c}
}

func replayElemSize(t types.Type) int64 {
	defer func() { recover() }()
	sz := types.SizesFor("gc", "amd64").Sizeof(t)
	if sz <= 0 {
		return 1
	}
	return sz
}

func isZeroVal(v rVal) bool {
	switch x := v.(type) {
	case nil:
		return true
	case *rZero:
		return true
	case *rInt:
		return x.v.Sign() == 0
	case *rBig:
		return x.v.Sign() == 0
	case *rBool:
		return !x.v
	case *rString:
		return len(x.b) == 0
	case *rStruct:
		for _, f := range x.fields {
			if !isZeroVal(f) {
				return false
			}
		}
		return true
	case *rArray:
		for _, f := range x.elems {
			if !isZeroVal(f) {
				return false
			}
		}
		return true
	case *rPtr:
		return x.obj == nil && x.blk == nil
	case *rSlice:
		return x.blk == nil
	}
	return false
}
